#!/bin/bash
# Runs the thorough tier of the given checks one after another (used with `vp run`); results stay
# in the snapshot it runs from (VERIF_ROOT), never in /verif/evidence.
export VERIF_ROOT="$PWD"
[ -n "$VP_RUN_REPO" ] && export VERIF_REPO="$VP_RUN_REPO"
for c in "$@"; do
  ./verif.sh check $c --tier thorough 2>&1 | grep -v "^    " | tail -6
done
