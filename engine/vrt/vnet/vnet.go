// Package vnet is the part of package net that inbucket's SMTP/POP3 listeners use, with an
// injectable in-memory listener so that the real Start/serve/Drain code runs without TCP inside
// a synctest bubble (network I/O is not durably blocking and would stall the scheduler).
package vnet

import (
	"errors"
	"net"
	"sync"
)

type Listener = net.Listener
type Error = net.Error
type Conn = net.Conn
type TCPAddr = net.TCPAddr
type Addr = net.Addr

func ResolveTCPAddr(network, address string) (*net.TCPAddr, error) {
	return net.ResolveTCPAddr(network, address)
}

// Fake, when set, supplies the listener for an address.
var Fake func(addr string) net.Listener

// FakeErr, when set and returning an error for an address, makes listening on it fail (the
// address is in use).
var FakeErr func(addr string) error

func ListenTCP(network string, laddr *net.TCPAddr) (net.Listener, error) {
	if FakeErr != nil {
		if err := FakeErr(laddr.String()); err != nil {
			return nil, err
		}
	}
	if Fake != nil {
		if l := Fake(laddr.String()); l != nil {
			return l, nil
		}
	}
	return net.ListenTCP(network, laddr)
}

func Listen(network, address string) (net.Listener, error) {
	if FakeErr != nil {
		if err := FakeErr(address); err != nil {
			return nil, err
		}
	}
	if Fake != nil {
		if l := Fake(address); l != nil {
			return l, nil
		}
	}
	return net.Listen(network, address)
}

func SplitHostPort(hostport string) (host, port string, err error) {
	return net.SplitHostPort(hostport)
}

// MemListener is an in-memory net.Listener: Accept receives from a channel, Dial hands over one
// end of a net.Pipe.  After Close every Dial is refused (a closed TCP listener refuses new
// connections) and Accept fails.
type MemListener struct {
	ch     chan net.Conn
	closed chan struct{}
	once   sync.Once
}

func NewMemListener() *MemListener {
	return &MemListener{ch: make(chan net.Conn), closed: make(chan struct{})}
}

type closedErr struct{}

func (closedErr) Error() string   { return "use of closed network connection" }
func (closedErr) Timeout() bool   { return false }
func (closedErr) Temporary() bool { return false }

func (l *MemListener) Accept() (net.Conn, error) {
	select {
	case <-l.closed:
		return nil, closedErr{}
	default:
	}
	select {
	case c := <-l.ch:
		return c, nil
	case <-l.closed:
		return nil, closedErr{}
	}
}

func (l *MemListener) Close() error {
	l.once.Do(func() { close(l.closed) })
	return nil
}

func (l *MemListener) Addr() net.Addr { return &net.TCPAddr{} }

// IsClosed reports whether Close was called.
func (l *MemListener) IsClosed() bool {
	select {
	case <-l.closed:
		return true
	default:
		return false
	}
}

// Dial connects a client; it fails once the listener is closed.
func (l *MemListener) Dial() (net.Conn, error) {
	select {
	case <-l.closed:
		return nil, errors.New("connection refused")
	default:
	}
	c1, c2 := net.Pipe()
	select {
	case l.ch <- c1:
		return c2, nil
	case <-l.closed:
		return nil, errors.New("connection refused")
	}
}
