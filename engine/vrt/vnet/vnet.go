// Package vnet: the part of net used by the listeners, with an injectable in-memory listener.
package vnet

import (
	"errors"
	"net"
	"sync"
)

type Listener = net.Listener
type Error = net.Error
type Conn = net.Conn
type TCPAddr = net.TCPAddr

func ResolveTCPAddr(network, address string) (*net.TCPAddr, error) {
	return net.ResolveTCPAddr(network, address)
}

// Fake, when set, supplies the listener for an address.
var Fake func(addr string) net.Listener

func ListenTCP(network string, laddr *net.TCPAddr) (net.Listener, error) {
	if Fake != nil {
		if l := Fake(laddr.String()); l != nil {
			return l, nil
		}
	}
	return net.ListenTCP(network, laddr)
}

type MemListener struct {
	ch     chan net.Conn
	closed chan struct{}
	once   sync.Once
}

func NewMemListener() *MemListener {
	return &MemListener{ch: make(chan net.Conn), closed: make(chan struct{})}
}

type closedErr struct{}

func (closedErr) Error() string   { return "use of closed network connection" }
func (closedErr) Timeout() bool   { return false }
func (closedErr) Temporary() bool { return false }

func (l *MemListener) Accept() (net.Conn, error) {
	select {
	case c := <-l.ch:
		return c, nil
	case <-l.closed:
		return nil, closedErr{}
	}
}
func (l *MemListener) Close() error {
	l.once.Do(func() { close(l.closed) })
	return nil
}
func (l *MemListener) Addr() net.Addr { return &net.TCPAddr{} }

// Dial connects a client; fails once the listener is closed.
func (l *MemListener) Dial() (net.Conn, error) {
	c1, c2 := net.Pipe()
	select {
	case l.ch <- c1:
		return c2, nil
	case <-l.closed:
		return nil, errors.New("connection refused")
	}
}
