package vsched

import "os"

// File-system calls of the file store (pkg/storage/file) go through these wrappers in scheduler
// builds.  FSFault is the environment's answer to one call: nil (the default, also when FSFault
// itself is nil) lets the real call happen; an error makes the call fail with it without touching
// the file system.  A harness that sets it owns the deviation budget: "the k-th call fails".

// FSFault is consulted before every wrapped call with the operation ("create", "open", "remove",
// "rename") and its (first) path.
var FSFault func(op, path string) error

func fsFault(op, path string) error {
	if f := FSFault; f != nil {
		return f(op, path)
	}
	return nil
}

func Create(name string) (*os.File, error) {
	if err := fsFault("create", name); err != nil {
		return nil, &os.PathError{Op: "open", Path: name, Err: err}
	}
	return os.Create(name)
}

func Open(name string) (*os.File, error) {
	if err := fsFault("open", name); err != nil {
		return nil, &os.PathError{Op: "open", Path: name, Err: err}
	}
	return os.Open(name)
}

func Remove(name string) error {
	if err := fsFault("remove", name); err != nil {
		return &os.PathError{Op: "remove", Path: name, Err: err}
	}
	return os.Remove(name)
}

func Rename(oldpath, newpath string) error {
	if err := fsFault("rename", oldpath); err != nil {
		return &os.LinkError{Op: "rename", Old: oldpath, New: newpath, Err: err}
	}
	return os.Rename(oldpath, newpath)
}
