package vsched

import (
	"errors"
	"io/fs"
	"os"
	"path/filepath"
	"syscall"
)

// MkdirAll is os.MkdirAll written as the loop of system calls it is, with a scheduling point
// before each of them (stat of the path, the same for its parents, mkdir).
func MkdirAll(path string, perm os.FileMode) error {
	Point("MkdirAll: stat " + filepath.Base(path))
	if fi, err := os.Stat(path); err == nil {
		if fi.IsDir() {
			return nil
		}
		return &os.PathError{Op: "mkdir", Path: path, Err: syscall.ENOTDIR}
	}
	if parent := filepath.Dir(path); parent != path && parent != "." {
		if err := MkdirAll(parent, perm); err != nil {
			return err
		}
	}
	Point("MkdirAll: mkdir " + filepath.Base(path))
	if err := os.Mkdir(path, perm); err != nil {
		// somebody else may have made it in the meantime
		if fi, e2 := os.Lstat(path); e2 == nil && fi.IsDir() {
			return nil
		}
		return err
	}
	return nil
}

// RemoveAll is os.RemoveAll as a walk with a scheduling point before every unlink / rmdir.
func RemoveAll(path string) error {
	Point("RemoveAll: unlink " + filepath.Base(path))
	err := os.Remove(path)
	if err == nil || errors.Is(err, fs.ErrNotExist) {
		return nil
	}
	for attempt := 0; attempt < 4; attempt++ {
		Point("RemoveAll: readdir " + filepath.Base(path))
		entries, rerr := os.ReadDir(path)
		if rerr != nil {
			if errors.Is(rerr, fs.ErrNotExist) {
				return nil
			}
			return err // not a directory we can read: report the first error
		}
		for _, e := range entries {
			if cerr := RemoveAll(filepath.Join(path, e.Name())); cerr != nil {
				return cerr
			}
		}
		Point("RemoveAll: rmdir " + filepath.Base(path))
		err = os.Remove(path)
		if err == nil || errors.Is(err, fs.ErrNotExist) {
			return nil
		}
	}
	return err
}
