// Package vsched is the controlled scheduler of the inbucket model-checking harness.  It is
// overlaid into inbucket's module (pkg/vrt/vsched) at check time together with an instrumented
// copy of every non-test file under pkg/, in which `go` statements, channel operations, selects
// and sync primitives report to it.
//
// One execution runs inside one testing/synctest bubble.  The scheduler (the bubble's root
// goroutine) releases exactly one parked goroutine, calls synctest.Wait — which returns when
// every other goroutine is durably blocked: parked at a scheduling point, or genuinely blocked
// in a channel operation / select / timer — and decides again.  Decisions come from a prefix of
// choices (replay) followed by the default choice 0 (keep running the same goroutine if it is
// still enabled, else the lowest id).
package vsched

import (
	"fmt"
	"runtime/debug"
	"sort"
	"strings"
	"sync"
	"sync/atomic"
	"testing/synctest"
	"time"
	_ "unsafe"
)

//go:linkname goid runtime.verifGoid
func goid() uint64

//go:linkname selOn runtime.verifSelectOn
var selOn uint32

//go:linkname selDec runtime.verifSelDecisions
var selDec [1024]uint8

//go:linkname selReady runtime.verifSelReady
var selReady [1024]uint8

//go:linkname selPos runtime.verifSelPos
var selPos uint32

//go:linkname mapFixed internal/runtime/maps.VerifFixedIter
var mapFixed uint32

// Op describes the operation a goroutine is about to perform at a scheduling point.
type Op struct {
	Label   string
	Obj     any         // identity of the object operated on (for reductions), may be nil
	Enabled func() bool // nil = always enabled
}

// G is a managed goroutine.
type G struct {
	ID     string
	Daemon bool // not required to finish (background goroutines of the system under test)
	root   bool // the scheduler itself (runs setup and cleanup): never parks
	wake   chan bool
	parked bool
	done   bool
	op     Op
	nchild int
}

// Step is one scheduling decision.
type Step struct {
	N      int    // number of enabled candidates
	Chosen int    // index chosen
	G      string // goroutine released
	Label  string
	PrevEn bool // the previously running goroutine was still enabled (choosing another = preemption)
	SelPos int  // number of multi-ready selects seen before this step
}

// Thread is a harness thread of a scenario.
type Thread struct {
	Name   string
	Daemon bool
	// Early threads are started before the initialisation phase and take part in it under the
	// default schedule (e.g. a server's Start that must be running while init sets the scene).
	Early bool
	F     func()
}

// Exec is one execution.
type Exec struct {
	mu       sync.Mutex
	byGoid   map[uint64]*G
	gs       []*G
	Trace    []Step
	last     *G
	Panics   []string
	Stacks   []string
	Deadlock bool     // a non-daemon goroutine never finished and nothing is enabled
	Blocked  []string // ids of non-daemon goroutines left unfinished
	SelReady []uint8  // ready-case counts of the multi-ready selects, in order
	MaxSteps bool     // step horizon hit
	aborting atomic.Bool
	stepNo   atomic.Int64
	log      []LogEntry
}

// LogEntry is a harness observation stamped with the scheduler step during which it was made.
type LogEntry struct {
	Step int64
	G    string
	What string
}

type abortT struct{}

var cur atomic.Pointer[Exec]

// Cur returns the active execution or nil.
func Cur() *Exec { return cur.Load() }

// Active reports whether an execution is in progress.
func Active() bool { return cur.Load() != nil }

func (e *Exec) self() *G {
	id := goid()
	e.mu.Lock()
	g := e.byGoid[id]
	e.mu.Unlock()
	return g
}

func (e *Exec) register(g *G) {
	e.mu.Lock()
	e.byGoid[goid()] = g
	e.gs = append(e.gs, g)
	e.mu.Unlock()
}

// Log records a harness observation (ordered by scheduler step, not by append order: several
// goroutines may run between two scheduling points).
func Log(what string) {
	e := Cur()
	if e == nil {
		return
	}
	g := e.self()
	id := "?"
	if g != nil {
		id = g.ID
	}
	e.mu.Lock()
	e.log = append(e.log, LogEntry{Step: e.stepNo.Load(), G: id, What: what})
	e.mu.Unlock()
}

// StepNo returns the current scheduler step (a logical timestamp).
func StepNo() int64 {
	if e := Cur(); e != nil {
		return e.stepNo.Load()
	}
	return 0
}

// Logs returns the observations sorted by step (stable).
func (e *Exec) Logs() []LogEntry {
	e.mu.Lock()
	l := append([]LogEntry{}, e.log...)
	e.mu.Unlock()
	sort.SliceStable(l, func(i, j int) bool { return l[i].Step < l[j].Step })
	return l
}

// SelfID returns the id of the calling managed goroutine ("" if unmanaged).
func SelfID() string {
	if e := Cur(); e != nil {
		if g := e.self(); g != nil {
			return g.ID
		}
	}
	return ""
}

// Spawn is called in the parent at a `go` statement; it returns the child's G.
func Spawn() *G {
	e := Cur()
	if e == nil {
		return nil
	}
	p := e.self()
	if p == nil {
		return nil // spawned by an unmanaged goroutine: stays unmanaged
	}
	p.nchild++
	return &G{ID: fmt.Sprintf("%s.%d", p.ID, p.nchild), wake: make(chan bool), Daemon: true}
}

// Go starts f as a managed goroutine from harness code (the instrumented `go` statement of
// inbucket's own code does the same through Spawn/Start/Exit).
func Go(f func()) {
	g := Spawn()
	go func() {
		defer Exit(g)
		Start(g)
		f()
	}()
}

// Start is called first thing in the child goroutine.
func Start(g *G) {
	e := Cur()
	if e == nil || g == nil {
		return
	}
	e.register(g)
	g.park(Op{Label: "start"})
}

// Exit is deferred in the child goroutine: it records a panic as "the process would have
// crashed" instead of killing the explorer.
func Exit(g *G) {
	r := recover()
	if g == nil {
		if r != nil {
			panic(r)
		}
		return
	}
	if r != nil {
		if _, ok := r.(abortT); !ok {
			if e := Cur(); e != nil && !e.aborting.Load() {
				st := string(debug.Stack())
				e.mu.Lock()
				e.Panics = append(e.Panics, fmt.Sprintf("%v", r))
				e.Stacks = append(e.Stacks, st)
				e.mu.Unlock()
			}
		}
	}
	g.done = true
}

func (g *G) park(op Op) {
	g.op = op
	g.parked = true
	ok := <-g.wake
	if !ok {
		panic(abortT{})
	}
}

// Unwind terminates the calling goroutine of an execution that is being torn down (it would
// otherwise enter a critical section that is still occupied).
func Unwind() {
	if e := Cur(); e != nil && e.aborting.Load() {
		panic(abortT{})
	}
	panic("vsched: lock acquired while not available outside teardown")
}

// Point is a scheduling point.
func Point(label string) { PointOp(Op{Label: label}) }

// PointObj is a scheduling point on an identified object (channel).
func PointObj(label string, obj any) { PointOp(Op{Label: label, Obj: obj}) }

// PointOp is a scheduling point with an enabledness predicate.
func PointOp(op Op) {
	e := Cur()
	if e == nil {
		return
	}
	g := e.self()
	if g == nil || g.root || e.aborting.Load() {
		return // unmanaged goroutine, the scheduler itself, or teardown: free running
	}
	g.park(op)
}

func (e *Exec) enabled() []*G {
	var c []*G
	for _, g := range e.gs {
		if g.parked && !g.done && (g.op.Enabled == nil || g.op.Enabled()) {
			c = append(c, g)
		}
	}
	sort.Slice(c, func(i, j int) bool {
		if (c[i] == e.last) != (c[j] == e.last) {
			return c[i] == e.last
		}
		return lessID(c[i].ID, c[j].ID)
	})
	return c
}

func lessID(a, b string) bool {
	// hierarchical ids "T2.1.3": compare component-wise numerically
	as, bs := strings.Split(a, "."), strings.Split(b, ".")
	for i := 0; i < len(as) && i < len(bs); i++ {
		if as[i] != bs[i] {
			if len(as[i]) != len(bs[i]) {
				return len(as[i]) < len(bs[i])
			}
			return as[i] < bs[i]
		}
	}
	return len(as) < len(bs)
}

// Config of one execution.
type Config struct {
	Prefix   []int   // scheduling choices to replay; afterwards choice 0
	Sel      []uint8 // decisions for the k-th multi-ready select; afterwards 0
	MaxSteps int     // horizon (0 = 20000)
	// Tick / MaxTicks: when nothing is enabled but a non-daemon goroutine is unfinished, the
	// scheduler lets the bubble's fake clock advance by sleeping Tick (pending timers fire in
	// time order), at most MaxTicks times per execution.  A timer firing is thus an explicit
	// event of the schedule, never a wall-clock accident.
	Tick     time.Duration
	MaxTicks int
	// Eager lists goroutine ids (an entry covers the goroutine and everything it spawns) that are
	// not part of the explored choice: whenever one of them is enabled it runs at once, up to its
	// next blocking point, and the step is no branch point.  A scenario uses it to keep background
	// goroutines it does not study out of the interleaving space; what is explored is every
	// schedule of the remaining goroutines against that fixed behaviour of the eager ones.
	Eager []string
}

func (cfg *Config) eager(id string) bool {
	for _, p := range cfg.Eager {
		if id == p || strings.HasPrefix(id, p+".") {
			return true
		}
	}
	return false
}

// ErrDivergence is the panic value for a replayed choice that is out of range.
type ErrDivergence struct{ Step, Choice, N int }

func (d ErrDivergence) Error() string {
	return fmt.Sprintf("replay divergence at step %d: choice %d of %d enabled", d.Step, d.Choice, d.N)
}

// Run executes one schedule; it must be called inside a synctest bubble.  setup constructs the
// system under test (its goroutines become managed) and returns the scenario threads and a
// cleanup function that makes every remaining goroutine terminate.
func Run(cfg Config, setup func() (init func(), threads []Thread, cleanup func())) *Exec {
	e := &Exec{byGoid: map[uint64]*G{}}
	root := &G{ID: "R", wake: make(chan bool), root: true}
	e.byGoid[goid()] = root
	cur.Store(e)
	defer cur.Store(nil)
	selPos = 0
	for i := range selDec {
		selDec[i] = 0
	}
	copy(selDec[:], cfg.Sel)
	selOn = 1
	mapFixed = 1
	defer func() { selOn = 0; mapFixed = 0 }()
	maxSteps := cfg.MaxSteps
	if maxSteps == 0 {
		maxSteps = 20000
	}
	init, threads, cleanup := setup()
	var ts []*G
	launch := func(i int, t Thread) {
		g := &G{ID: fmt.Sprintf("T%d", i), wake: make(chan bool), Daemon: t.Daemon}
		ts = append(ts, g)
		go func() {
			defer Exit(g)
			// Scenario threads do not park at their start: the order in which they begin is
			// irrelevant because (by construction of the scenarios) a thread touches nothing
			// shared before its first scheduling point or blocking operation.  Goroutines
			// spawned by the system under test DO park at their first instruction.
			e.register(g)
			t.F()
		}()
	}
	for i, t := range threads {
		if t.Early {
			launch(i, t)
		}
	}
	if init != nil {
		// The initialisation phase runs as a managed goroutine under the default schedule; its
		// steps are deterministic and are not branch points.
		ig := &G{ID: "I", wake: make(chan bool)}
		go func() {
			defer Exit(ig)
			Start(ig)
			init()
		}()
		for n := 0; !ig.done; n++ {
			synctest.Wait()
			if ig.done || len(e.Panics) > 0 {
				break
			}
			c := e.enabled()
			if len(c) == 0 || n > maxSteps {
				e.Blocked = append(e.Blocked, "init@"+ig.op.Label)
				e.Deadlock = true
				break
			}
			// prefer the init goroutine itself when enabled
			g := c[0]
			for _, x := range c {
				if x == ig {
					g = x
				}
			}
			e.last = g
			g.parked = false
			g.wake <- true
		}
		synctest.Wait()
		// let everything the initialisation set in motion settle (default schedule) so that the
		// branching phase starts from a quiescent, deterministic state
		for n := 0; n < maxSteps && !e.Deadlock && len(e.Panics) == 0; n++ {
			c := e.enabled()
			if len(c) == 0 {
				break
			}
			e.last = c[0]
			c[0].parked = false
			c[0].wake <- true
			synctest.Wait()
		}
		e.last = nil
	}
	for i, t := range threads {
		if !t.Early {
			launch(i, t)
		}
	}
	ticks := 0
	for step := 0; !e.Deadlock; step++ {
		synctest.Wait()
		e.mu.Lock()
		np := len(e.Panics)
		e.mu.Unlock()
		if np > 0 {
			break
		}
		c := e.enabled()
		if len(c) == 0 {
			unfinished := false
			for _, g := range e.gs {
				if !g.done && !g.Daemon {
					unfinished = true
				}
			}
			if unfinished && ticks < cfg.MaxTicks && cfg.Tick > 0 {
				ticks++
				e.Trace = append(e.Trace, Step{N: 1, Chosen: 0, G: "clock", Label: "advance fake clock", SelPos: int(selPos)})
				e.last = nil
				e.stepNo.Store(int64(step + 1))
				time.Sleep(cfg.Tick)
				continue
			}
			break
		}
		if step >= maxSteps {
			e.MaxSteps = true
			break
		}
		if len(cfg.Eager) > 0 {
			for _, g := range c {
				if cfg.eager(g.ID) {
					c = []*G{g}
					break
				}
			}
		}
		k := 0
		if step < len(cfg.Prefix) {
			k = cfg.Prefix[step]
			if k >= len(c) {
				panic(ErrDivergence{step, k, len(c)})
			}
		}
		g := c[k]
		prevEn := e.last != nil && c[0] == e.last
		e.Trace = append(e.Trace, Step{N: len(c), Chosen: k, G: g.ID, Label: g.op.Label, PrevEn: prevEn, SelPos: int(selPos)})
		e.last = g
		e.stepNo.Store(int64(step + 1))
		g.parked = false
		g.wake <- true
	}
	for _, g := range e.gs {
		if !g.done && !g.Daemon {
			e.Blocked = append(e.Blocked, g.ID+"@"+g.op.Label)
		}
	}
	if len(e.Blocked) > 0 && len(e.Panics) == 0 && !e.MaxSteps {
		e.Deadlock = true
	}
	n := int(selPos)
	if n > len(selReady) {
		n = len(selReady)
	}
	e.SelReady = append([]uint8{}, selReady[:n]...)
	// tear down: everything still parked is aborted, everything blocked is released by cleanup
	e.aborting.Store(true)
	if cleanup != nil {
		cleanup()
	}
	for round := 0; round < 50; round++ {
		synctest.Wait()
		any := false
		for _, g := range e.gs {
			if g.parked && !g.done {
				g.parked = false
				g.wake <- false
				any = true
			}
		}
		if !any {
			break
		}
	}
	synctest.Wait()
	return e
}
