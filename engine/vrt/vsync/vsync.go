// Package vsync is the drop-in subset of package sync that inbucket uses, routed through the
// controlled scheduler.  Acquire operations are scheduling points carrying an enabledness
// predicate, so the scheduler never releases a goroutine into a lock it cannot take, and "nothing
// enabled while a client is unfinished" is a deadlock.  Release operations are not scheduling
// points (sound for data-race-free code: what follows a release up to the next acquire or channel
// operation touches no shared state).  Outside an execution everything falls through to sync.
package vsync

import (
	"sync"

	"github.com/inbucket/inbucket/v3/pkg/vrt/vsched"
)

// Pool is a deterministic sync.Pool.  Inside an execution Put pushes and Get pops the item put
// most recently - a choice sync.Pool is always allowed to make, and the one that re-uses most
// eagerly, so that aliasing through a pooled object shows - and nothing is carried over from one
// execution to the next (executions must replay exactly).  Outside an execution it is a sync.Pool.
type Pool struct {
	New func() any

	real  sync.Pool
	mu    sync.Mutex
	epoch *vsched.Exec
	items []any
}

func (p *Pool) Get() any {
	e := vsched.Cur()
	if e == nil {
		if x := p.real.Get(); x != nil {
			return x
		}
		if p.New != nil {
			return p.New()
		}
		return nil
	}
	// a scheduling point: what another goroutine does with the pool (and with an object it got
	// from it) between this Get and the matching Put is part of the explored behaviour
	vsched.Point("Pool.Get")
	p.mu.Lock()
	if p.epoch != e {
		p.epoch, p.items = e, nil
	}
	var x any
	if n := len(p.items); n > 0 {
		x, p.items = p.items[n-1], p.items[:n-1]
	}
	p.mu.Unlock()
	if x == nil && p.New != nil {
		x = p.New()
	}
	return x
}

func (p *Pool) Put(x any) {
	if x == nil {
		return
	}
	e := vsched.Cur()
	if e == nil {
		p.real.Put(x)
		return
	}
	p.mu.Lock()
	if p.epoch != e {
		p.epoch, p.items = e, nil
	}
	p.items = append(p.items, x)
	p.mu.Unlock()
	vsched.Point("Pool.Put (returned)")
}

type Once = sync.Once
type Locker = sync.Locker
type Map = sync.Map
type Cond = sync.Cond

// The rest of package sync's API is passed through unchanged, so that an edit of inbucket that
// starts using it still builds under the shim.  A sync.Cond works on a shimmed Mutex through the
// Locker interface: Wait releases it (no scheduling point), blocks durably in the runtime, and
// re-acquires it through Lock (a scheduling point).
func NewCond(l Locker) *Cond                                   { return sync.NewCond(l) }
func OnceFunc(f func()) func()                                 { return sync.OnceFunc(f) }
func OnceValue[T any](f func() T) func() T                     { return sync.OnceValue(f) }
func OnceValues[T1, T2 any](f func() (T1, T2)) func() (T1, T2) { return sync.OnceValues(f) }

type Mutex struct {
	real sync.Mutex
	held bool
}

func (m *Mutex) Lock() {
	if !vsched.Active() {
		m.real.Lock()
		return
	}
	vsched.PointOp(vsched.Op{Label: "Mutex.Lock", Obj: m, Enabled: func() bool { return !m.held }})
	if m.held {
		vsched.Unwind() // only possible while the execution is being torn down
	}
	m.held = true
}

func (m *Mutex) TryLock() bool {
	if !vsched.Active() {
		return m.real.TryLock()
	}
	vsched.PointOp(vsched.Op{Label: "Mutex.TryLock", Obj: m})
	if m.held {
		return false
	}
	m.held = true
	return true
}

func (m *Mutex) Unlock() {
	if !vsched.Active() {
		m.real.Unlock()
		return
	}
	if !m.held {
		panic("sync: unlock of unlocked mutex")
	}
	m.held = false
}

type RWMutex struct {
	real     sync.RWMutex
	readers  int
	writer   bool
	wpending int
}

func (m *RWMutex) Lock() {
	if !vsched.Active() {
		m.real.Lock()
		return
	}
	// Go's RWMutex prefers writers: a pending Lock blocks new readers.  Modelled as
	// announce + acquire.
	vsched.PointOp(vsched.Op{Label: "RWMutex.Lock.announce", Obj: m})
	m.wpending++
	vsched.PointOp(vsched.Op{Label: "RWMutex.Lock.acquire", Obj: m, Enabled: func() bool { return !m.writer && m.readers == 0 }})
	m.wpending--
	if m.writer || m.readers != 0 {
		vsched.Unwind()
	}
	m.writer = true
}

func (m *RWMutex) Unlock() {
	if !vsched.Active() {
		m.real.Unlock()
		return
	}
	if !m.writer {
		panic("sync: Unlock of unlocked RWMutex")
	}
	m.writer = false
}

func (m *RWMutex) RLock() {
	if !vsched.Active() {
		m.real.RLock()
		return
	}
	vsched.PointOp(vsched.Op{Label: "RWMutex.RLock", Obj: m, Enabled: func() bool { return !m.writer && m.wpending == 0 }})
	if m.writer {
		vsched.Unwind()
	}
	m.readers++
}

func (m *RWMutex) RUnlock() {
	if !vsched.Active() {
		m.real.RUnlock()
		return
	}
	if m.readers <= 0 {
		panic("sync: RUnlock of unlocked RWMutex")
	}
	m.readers--
}

// TryLock and TryRLock never wait: one scheduling point, then the answer the real RWMutex would
// give in this state (a pending writer refuses new readers, as sync.RWMutex does).
func (m *RWMutex) TryLock() bool {
	if !vsched.Active() {
		return m.real.TryLock()
	}
	vsched.PointOp(vsched.Op{Label: "RWMutex.TryLock", Obj: m})
	if m.writer || m.readers != 0 || m.wpending != 0 {
		return false
	}
	m.writer = true
	return true
}

func (m *RWMutex) TryRLock() bool {
	if !vsched.Active() {
		return m.real.TryRLock()
	}
	vsched.PointOp(vsched.Op{Label: "RWMutex.TryRLock", Obj: m})
	if m.writer || m.wpending != 0 {
		return false
	}
	m.readers++
	return true
}

func (m *RWMutex) RLocker() sync.Locker { return rlocker{m} }

type rlocker struct{ m *RWMutex }

func (r rlocker) Lock()   { r.m.RLock() }
func (r rlocker) Unlock() { r.m.RUnlock() }

type WaitGroup struct {
	real sync.WaitGroup
	n    int
}

func (w *WaitGroup) Add(d int) {
	if !vsched.Active() {
		w.real.Add(d)
		return
	}
	w.n += d
	if w.n < 0 {
		panic("sync: negative WaitGroup counter")
	}
}

func (w *WaitGroup) Done() { w.Add(-1) }

func (w *WaitGroup) Wait() {
	if !vsched.Active() {
		w.real.Wait()
		return
	}
	vsched.PointOp(vsched.Op{Label: "WaitGroup.Wait", Obj: w, Enabled: func() bool { return w.n == 0 }})
	if w.n != 0 {
		vsched.Unwind()
	}
}
