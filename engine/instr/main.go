// instr: prototype instrumenter. usage: instr -root /repo -out DIR -engine ENGINE_DIR pkgdir...
package main

import (
	"bytes"
	"encoding/json"
	"flag"
	"fmt"
	"go/ast"
	"go/parser"
	"go/printer"
	"go/token"
	"os"
	"path/filepath"
	"strconv"
	"strings"
)

const vsyncPath = "github.com/inbucket/inbucket/v3/pkg/vrt/vsync"
const vschedPath = "github.com/inbucket/inbucket/v3/pkg/vrt/vsched"

var fset = token.NewFileSet()
var tmpN int
var generated = map[ast.Node]bool{}

func hasChanOp(n ast.Node) bool {
	found := false
	ast.Inspect(n, func(x ast.Node) bool {
		if x == nil || found {
			return false
		}
		switch v := x.(type) {
		case *ast.FuncLit:
			return false
		case *ast.UnaryExpr:
			if v.Op == token.ARROW {
				found = true
			}
		case *ast.SendStmt:
			found = true
		case *ast.CallExpr:
			if id, ok := v.Fun.(*ast.Ident); ok && id.Name == "close" {
				found = true
			}
		}
		return true
	})
	return found
}

// hasFSCall reports whether n (not descending into function literals) calls a function of
// package os: file-system operations are shared state outside the Go memory model, so they are
// scheduling points too (a wrongly locked critical section made only of file operations would
// otherwise execute atomically under the cooperative scheduler).
func hasFSCall(n ast.Node) bool {
	found := false
	ast.Inspect(n, func(x ast.Node) bool {
		if x == nil || found {
			return false
		}
		switch v := x.(type) {
		case *ast.FuncLit:
			return false
		case *ast.CallExpr:
			if sel, ok := v.Fun.(*ast.SelectorExpr); ok {
				if id, ok := sel.X.(*ast.Ident); ok && id.Name == "os" {
					switch sel.Sel.Name {
					case "Create", "Open", "OpenFile", "Remove", "RemoveAll", "Rename", "Mkdir", "MkdirAll", "Stat", "ReadDir", "ReadFile", "WriteFile", "Truncate":
						found = true
					}
				}
			}
		}
		return true
	})
	return found
}

func pointStmt(pos token.Pos, what string) ast.Stmt {
	p := fset.Position(pos)
	lbl := fmt.Sprintf("%s:%d %s", filepath.Base(p.Filename), p.Line, what)
	return &ast.ExprStmt{X: &ast.CallExpr{
		Fun:  &ast.SelectorExpr{X: ast.NewIdent("vsched"), Sel: ast.NewIdent("Point")},
		Args: []ast.Expr{&ast.BasicLit{Kind: token.STRING, Value: strconv.Quote(lbl)}},
	}}
}

// needsPoint reports whether a Point must precede stmt s (looking only at the parts of s that
// execute before any nested statement list).
func needsPoint(s ast.Stmt) (bool, string) {
	switch v := s.(type) {
	case *ast.SelectStmt:
		return true, "select"
	case *ast.GoStmt:
		return true, "go"
	case *ast.SendStmt:
		return true, "send"
	case *ast.ExprStmt, *ast.AssignStmt, *ast.DeclStmt, *ast.ReturnStmt, *ast.IncDecStmt:
		if hasChanOp(s) {
			return true, "chanop"
		}
		if hasFSCall(s) {
			return true, "fsop"
		}
	case *ast.DeferStmt:
		return false, ""
	case *ast.IfStmt:
		if (v.Init != nil && hasChanOp(v.Init)) || hasChanOp(v.Cond) {
			return true, "if-chanop"
		}
		if (v.Init != nil && hasFSCall(v.Init)) || hasFSCall(v.Cond) {
			return true, "if-fsop"
		}
	case *ast.SwitchStmt:
		if (v.Init != nil && hasChanOp(v.Init)) || (v.Tag != nil && hasChanOp(v.Tag)) {
			return true, "switch-chanop"
		}
	case *ast.ForStmt:
		if (v.Init != nil && hasChanOp(v.Init)) || (v.Cond != nil && hasChanOp(v.Cond)) {
			return true, "for-chanop"
		}
	case *ast.RangeStmt:
		if hasChanOp(v.X) {
			return true, "range-chanop"
		}
	case *ast.LabeledStmt:
		return needsPoint(v.Stmt)
	}
	return false, ""
}

// rewriteGo turns `go f(a,b)` into a block evaluating operands then spawning a managed goroutine.
func rewriteGo(g *ast.GoStmt) ast.Stmt {
	call := g.Call
	var stmts []ast.Stmt
	var lhs, rhs []ast.Expr
	newArgs := make([]ast.Expr, len(call.Args))
	fun := call.Fun
	if _, isLit := fun.(*ast.FuncLit); !isLit {
		tmpN++
		fn := ast.NewIdent(fmt.Sprintf("_vf%d", tmpN))
		lhs = append(lhs, fn)
		rhs = append(rhs, fun)
		fun = fn
	}
	for i, a := range call.Args {
		tmpN++
		id := ast.NewIdent(fmt.Sprintf("_va%d", tmpN))
		lhs = append(lhs, id)
		rhs = append(rhs, a)
		newArgs[i] = id
	}
	if len(lhs) > 0 {
		stmts = append(stmts, &ast.AssignStmt{Lhs: lhs, Tok: token.DEFINE, Rhs: rhs})
	}
	tmpN++
	gid := ast.NewIdent(fmt.Sprintf("_vg%d", tmpN))
	stmts = append(stmts, &ast.AssignStmt{Lhs: []ast.Expr{gid}, Tok: token.DEFINE, Rhs: []ast.Expr{
		&ast.CallExpr{Fun: &ast.SelectorExpr{X: ast.NewIdent("vsched"), Sel: ast.NewIdent("Spawn")}}}})
	inner := &ast.CallExpr{Fun: fun, Args: newArgs, Ellipsis: call.Ellipsis}
	body := &ast.BlockStmt{List: []ast.Stmt{
		&ast.DeferStmt{Call: &ast.CallExpr{Fun: &ast.SelectorExpr{X: ast.NewIdent("vsched"), Sel: ast.NewIdent("Exit")}, Args: []ast.Expr{gid}}},
		&ast.ExprStmt{X: &ast.CallExpr{Fun: &ast.SelectorExpr{X: ast.NewIdent("vsched"), Sel: ast.NewIdent("Start")}, Args: []ast.Expr{gid}}},
		&ast.ExprStmt{X: inner},
	}}
	ng := &ast.GoStmt{Call: &ast.CallExpr{Fun: &ast.FuncLit{Type: &ast.FuncType{Params: &ast.FieldList{}}, Body: body}}}
	generated[ng] = true
	generated[body] = true
	blk := &ast.BlockStmt{List: stmts}
	generated[blk] = true
	stmts = append(stmts, ng)
	blk.List = stmts
	return blk
}

func rewriteList(list []ast.Stmt) ([]ast.Stmt, bool) {
	var out []ast.Stmt
	changed := false
	for _, s := range list {
		if ok, what := needsPoint(s); ok {
			out = append(out, pointStmt(s.Pos(), what))
			changed = true
		}
		if g, ok := s.(*ast.GoStmt); ok {
			s = rewriteGo(g)
			changed = true
		}
		out = append(out, s)
	}
	return out, changed
}

// listensOnNet reports whether the file opens a network listener through package net (those
// files get the vnet shim, so the real accept loop runs on an in-memory listener).
func listensOnNet(path string) bool {
	src, err := os.ReadFile(path)
	if err != nil {
		return false
	}
	t := string(src)
	return strings.Contains(t, "net.ListenTCP(") || strings.Contains(t, "net.Listen(")
}

func instrument(path string) ([]byte, bool, error) {
	f, err := parser.ParseFile(fset, path, nil, parser.ParseComments)
	if err != nil {
		return nil, false, err
	}
	changed := false
	for _, imp := range f.Imports {
		if imp.Path.Value == `"net"` && listensOnNet(path) {
			imp.Path.Value = strconv.Quote("github.com/inbucket/inbucket/v3/pkg/vrt/vnet")
			imp.Name = ast.NewIdent("net")
			changed = true
		}
		if imp.Path.Value == `"sync"` {
			imp.Path.Value = strconv.Quote(vsyncPath)
			if imp.Name == nil {
				imp.Name = ast.NewIdent("sync")
			}
			changed = true
		}
	}
	usesSched := false
	// os.MkdirAll / os.RemoveAll are loops of system calls inside the standard library; they are
	// replaced by equivalent loops with a scheduling point before every system call, so that what
	// another goroutine does between two of those calls is explored too
	ast.Inspect(f, func(n ast.Node) bool {
		if call, ok := n.(*ast.CallExpr); ok {
			if sel, ok := call.Fun.(*ast.SelectorExpr); ok {
				if id, ok := sel.X.(*ast.Ident); ok && id.Name == "os" && (sel.Sel.Name == "MkdirAll" || sel.Sel.Name == "RemoveAll") {
					sel.X = ast.NewIdent("vsched")
					usesSched = true
				}
			}
		}
		return true
	})
	ast.Inspect(f, func(n ast.Node) bool {
		switch v := n.(type) {
		case *ast.BlockStmt:
			if generated[v] {
				return true
			}
			l, c := rewriteList(v.List)
			v.List = l
			usesSched = usesSched || c
		case *ast.CaseClause:
			l, c := rewriteList(v.Body)
			v.Body = l
			usesSched = usesSched || c
		case *ast.CommClause:
			l, c := rewriteList(v.Body)
			v.Body = l
			usesSched = usesSched || c
		}
		return true
	})
	// the file store's own file-system calls go through wrappers that can be told to fail (the
	// environment's answer "error" to one call, see vsched.FSFault); done after the pass above,
	// which recognises the calls by their package name
	if strings.Contains(filepath.ToSlash(path), "/pkg/storage/file/") {
		fsRewritten := false
		ast.Inspect(f, func(n ast.Node) bool {
			if call, ok := n.(*ast.CallExpr); ok {
				if sel, ok := call.Fun.(*ast.SelectorExpr); ok {
					if id, ok := sel.X.(*ast.Ident); ok && id.Name == "os" {
						switch sel.Sel.Name {
						case "Create", "Open", "Remove", "Rename":
							sel.X = ast.NewIdent("vsched")
							usesSched, fsRewritten = true, true
						}
					}
				}
			}
			return true
		})
		if fsRewritten {
			// the file may have used package os for nothing else
			f.Decls = append(f.Decls, &ast.GenDecl{Tok: token.VAR, Specs: []ast.Spec{&ast.ValueSpec{
				Names: []*ast.Ident{ast.NewIdent("_")}, Values: []ast.Expr{&ast.SelectorExpr{X: ast.NewIdent("os"), Sel: ast.NewIdent("ErrNotExist")}}}}})
		}
	}
	if usesSched {
		changed = true
		// add import
		spec := &ast.ImportSpec{Name: ast.NewIdent("vsched"), Path: &ast.BasicLit{Kind: token.STRING, Value: strconv.Quote(vschedPath)}}
		decl := &ast.GenDecl{Tok: token.IMPORT, Specs: []ast.Spec{spec}}
		f.Decls = append([]ast.Decl{decl}, f.Decls...)
	}
	if !changed {
		return nil, false, nil
	}
	var buf bytes.Buffer
	// drop comments positions problems: print without comments except build constraints is fine for prototype
	f.Comments = nil
	if err := printer.Fprint(&buf, fset, f); err != nil {
		return nil, false, err
	}
	return buf.Bytes(), true, nil
}

func main() {
	root := flag.String("root", "/repo", "")
	out := flag.String("out", "", "")
	engine := flag.String("engine", "", "")
	goroot := flag.String("goroot", "", "")
	flag.Parse()
	repl := map[string]string{}
	os.MkdirAll(*out, 0755)
	n := 0
	filepath.Walk(filepath.Join(*root, "pkg"), func(p string, info os.FileInfo, err error) error {
		if err != nil || info.IsDir() || !strings.HasSuffix(p, ".go") || strings.HasSuffix(p, "_test.go") {
			return nil
		}
		b, ch, err := instrument(p)
		if err != nil {
			fmt.Fprintln(os.Stderr, "ERR", p, err)
			os.Exit(2)
		}
		if ch {
			n++
			dst := filepath.Join(*out, fmt.Sprintf("f%03d_%s", n, filepath.Base(p)))
			os.WriteFile(dst, b, 0644)
			repl[p] = dst
		}
		return nil
	})
	for _, pk := range []string{"vsched", "vsync", "vnet"} {
		files, _ := filepath.Glob(filepath.Join(*engine, "vrt", pk, "*.go"))
		for _, f := range files {
			repl[filepath.Join(*root, "pkg", "vrt", pk, filepath.Base(f))] = f
		}
	}
	if *goroot != "" {
		// Runtime patches are applied textually to the toolchain's own sources at check time; a
		// patch that no longer applies fails loudly.
		patch := func(rel string, edits [][2]string) {
			src, err := os.ReadFile(filepath.Join(*goroot, "src", rel))
			if err != nil {
				fmt.Fprintln(os.Stderr, "ERR runtime patch:", err)
				os.Exit(2)
			}
			txt := string(src)
			for _, e := range edits {
				if strings.Count(txt, e[0]) < 1 {
					fmt.Fprintf(os.Stderr, "ERR runtime patch for %s does not apply: %q not found\n", rel, e[0])
					os.Exit(2)
				}
				txt = strings.Replace(txt, e[0], e[1], 1)
			}
			dst := filepath.Join(*out, "rt_"+strings.ReplaceAll(rel, "/", "_"))
			os.WriteFile(dst, []byte(txt), 0644)
			repl[filepath.Join(*goroot, "src", rel)] = dst
		}
		patch("runtime/select.go", [][2]string{{
			"\t// lock all the channels involved in the select\n\tsellock(scases, lockorder)\n",
			"\t// lock all the channels involved in the select\n\tsellock(scases, lockorder)\n\tif verifSelectOn != 0 && gp.bubble != nil {\n\t\tverifSelectFix(scases, pollorder, nsends)\n\t}\n",
		}})
		patch("internal/runtime/maps/table.go", [][2]string{
			{"it.entryOffset = rand()", "it.entryOffset = verifIterRand()"},
			{"it.dirOffset = rand()", "it.dirOffset = verifIterRand()"},
		})
		repl[filepath.Join(*goroot, "src/runtime/verif_rt.go")] = filepath.Join(*engine, "rt/verif_rt.go")
		repl[filepath.Join(*goroot, "src/internal/runtime/maps/verif_maps.go")] = filepath.Join(*engine, "rt/verif_maps.go")
	}
	j, _ := json.MarshalIndent(map[string]any{"Replace": repl}, "", " ")
	os.WriteFile(filepath.Join(*out, "overlay.json"), j, 0644)
	fmt.Println("instrumented", n, "files")
}
