package maps

import _ "unsafe"

// VerifFixedIter, when non-zero, makes map iteration start at slot 0 (verification only).
var VerifFixedIter uint32

//go:linkname VerifFixedIter

func verifIterRand() uint64 {
	if VerifFixedIter != 0 {
		return 0
	}
	return rand()
}
