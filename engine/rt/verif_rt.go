package runtime

import _ "unsafe"

// verif: deterministic / explorer-owned select choice inside synctest bubbles.
var verifSelectOn uint32
var verifSelDecisions [1024]uint8 // decision for k-th multi-ready select
var verifSelReady [1024]uint8     // log: number of ready cases at k-th multi-ready select
var verifSelPos uint32

//go:linkname verifSelectOn
//go:linkname verifSelDecisions
//go:linkname verifSelReady
//go:linkname verifSelPos

func verifSelectFix(scases []scase, pollorder []uint16, nsends int) {
	// sort pollorder ascending (insertion sort; tiny)
	for i := 1; i < len(pollorder); i++ {
		for j := i; j > 0 && pollorder[j-1] > pollorder[j]; j-- {
			pollorder[j-1], pollorder[j] = pollorder[j], pollorder[j-1]
		}
	}
	var ready [16]int
	n := 0
	for p, casei := range pollorder {
		casi := int(casei)
		c := scases[casi].c
		r := false
		if casi >= nsends {
			r = c.sendq.first != nil || c.qcount > 0 || c.closed != 0
		} else {
			r = c.closed != 0 || c.recvq.first != nil || c.qcount < c.dataqsiz
		}
		if r && n < len(ready) {
			ready[n] = p
			n++
		}
	}
	if n < 2 {
		return
	}
	k := verifSelPos
	verifSelPos++
	d := 0
	if int(k) < len(verifSelDecisions) {
		verifSelReady[k] = uint8(n)
		d = int(verifSelDecisions[k])
	}
	if d >= n {
		d = 0
	}
	p := ready[d]
	// move chosen to front, keep others in order
	ch := pollorder[p]
	copy(pollorder[1:p+1], pollorder[0:p])
	pollorder[0] = ch
}

//go:linkname verifGoid
func verifGoid() uint64 { return getg().goid }
