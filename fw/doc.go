// Package fw is the shared framework of the inbucket model-checking harness.
package fw
