// Package fw is the shared framework of the inbucket model-checking harness: the worker side
// (case counting, journalling, violations, samples, budgets) that every check body uses.
package fw

import (
	"bytes"
	"encoding/json"
	"fmt"
	"os"
	"runtime/debug"
	"sort"
	"strconv"
	"strings"
	"sync"
	"testing"
	"time"
)

// Violation is one failed oracle evaluation.
type Violation struct {
	// Key identifies the class of failure: clause + call site / canonical failing input class.
	// known_findings.jsonl matches on it, so it must be stable and must NOT be so coarse that a
	// different defect of the same property would share it.
	Key    string `json:"key"`
	Detail string `json:"detail"`
	// Case is the check-specific replayable description of the failing case.
	Case  json.RawMessage `json:"case"`
	Count int64           `json:"count"`
}

// Result is what one worker (one shard of one clause) reports.
type Result struct {
	Check       string              `json:"check"`
	Part        string              `json:"part"`
	Shard       int                 `json:"shard"`
	Evaluations int64               `json:"evaluations"`
	Distinct    int64               `json:"distinct_nontrivial"`
	Samples     []any               `json:"samples"`
	Violations  []*Violation        `json:"violations"`
	Exhaustive  bool                `json:"exhaustive"`
	Counters    map[string]int64    `json:"counters"` // summed across shards
	Maxima      map[string]int64    `json:"maxima"`   // max across shards
	Minima      map[string]int64    `json:"minima"`   // min across shards and explorer runs
	Sets        map[string][]string `json:"sets"`     // union across shards (e.g. distinct outcomes)
	Notes       []string            `json:"notes"`
	CasesDone   int64               `json:"cases_done"` // journal counter at last flush
	WallS       float64             `json:"wall_s"`
}

// Ctx is handed to a check body.
type Ctx struct {
	Check   string
	Part    string
	Tier    string // "quick" | "thorough"
	Shard   int
	NShards int
	Seed    int64
	SkipSet map[string]bool // journalled descriptions of cases that crashed the process before (restart)
	Replay  json.RawMessage
	T       *testing.T

	start    time.Time
	deadline time.Time
	out      string
	journal  *os.File

	mu        sync.Mutex
	res       Result
	caseNo    int64
	lastFlush time.Time
	vioByKey  map[string]*Violation
	sets      map[string]map[string]bool
	cut       bool
}

// Thorough reports whether the thorough tier runs.
func (c *Ctx) Thorough() bool { return c.Tier == "thorough" }

// Pick returns q for the quick tier and t for the thorough tier.
func Pick[T any](c *Ctx, q, t T) T {
	if c.Thorough() {
		return t
	}
	return q
}

// Mine reports whether top-level subtree i belongs to this shard.
func (c *Ctx) Mine(i int) bool { return i%c.NShards == c.Shard }

// Share runs f with a deadline that gives it an equal share of the remaining budget among
// `remaining` items still to run (so that one expensive item cannot starve the ones after it).
func (c *Ctx) Share(remaining int, f func()) {
	if remaining < 1 {
		remaining = 1
	}
	old := c.deadline
	left := time.Until(old)
	if left > 0 {
		c.deadline = time.Now().Add(left / time.Duration(remaining))
	}
	f()
	c.deadline = old
}

// Expired reports that the internal wall-clock budget is exhausted; the check must stop
// cleanly, and the run is reported as exhaustive:false.  It is never an oracle.
func (c *Ctx) Expired() bool {
	if time.Now().After(c.deadline) {
		c.mu.Lock()
		c.cut = true
		c.mu.Unlock()
		return true
	}
	return false
}

// NotExhaustive marks the run as not covering its whole space (e.g. a sampled sub-clause).
func (c *Ctx) NotExhaustive(why string) {
	c.mu.Lock()
	c.cut = true
	c.res.Notes = append(c.res.Notes, "not exhaustive: "+why)
	c.mu.Unlock()
}

// Begin starts a case: counts it, journals it (so that a crash of the process is attributable),
// and reports whether it must be executed (false while skipping after a restart).
// desc is only evaluated for journalling.
func (c *Ctx) Begin(desc func() any) bool {
	c.mu.Lock()
	defer c.mu.Unlock()
	c.caseNo++
	cb, _ := json.Marshal(desc())
	if c.SkipSet[string(cb)] {
		c.res.Notes = append(c.res.Notes, "skipped a case that crashed the process in an earlier attempt: "+string(cb))
		return false
	}
	if c.journal != nil {
		b, _ := json.Marshal(map[string]any{"n": c.caseNo, "case": json.RawMessage(cb)})
		b = append(b, '\n')
		// fixed-offset rewrite: last line wins.
		_, _ = c.journal.WriteAt(append(b, make([]byte, 64)...), 0)
	}
	c.res.Evaluations++
	if time.Since(c.lastFlush) > 2*time.Second {
		c.flushLocked()
	}
	return true
}

// Journal records the case about to be executed without counting it (used where a case is
// re-executed only to learn whether to extend it).  Returns false if the case crashed before.
func (c *Ctx) Journal(desc func() any) bool {
	c.mu.Lock()
	defer c.mu.Unlock()
	cb, _ := json.Marshal(desc())
	if c.SkipSet[string(cb)] {
		return false
	}
	if c.journal != nil {
		b, _ := json.Marshal(map[string]any{"n": c.caseNo + 1, "case": json.RawMessage(cb)})
		b = append(b, '\n')
		_, _ = c.journal.WriteAt(append(b, make([]byte, 64)...), 0)
	}
	return true
}

// Nontrivial counts one distinct non-trivial case (the caller guarantees distinctness by
// construction of its enumeration, or de-duplicates itself).
func (c *Ctx) Nontrivial(n int64) {
	c.mu.Lock()
	c.res.Distinct += n
	c.mu.Unlock()
}

// AddEvals adds evaluations that are not individually journalled (inner loops of a case).
func (c *Ctx) AddEvals(n int64) {
	c.mu.Lock()
	c.res.Evaluations += n
	c.mu.Unlock()
}

// Count adds to a named counter (summed over shards).
func (c *Ctx) Count(name string, n int64) {
	c.mu.Lock()
	c.res.Counters[name] += n
	c.mu.Unlock()
}

// Max records a named maximum.
func (c *Ctx) Max(name string, n int64) {
	c.mu.Lock()
	if n > c.res.Maxima[name] {
		c.res.Maxima[name] = n
	}
	c.mu.Unlock()
}

// Min records a named minimum (e.g. the deepest bound completed by EVERY explorer run).
func (c *Ctx) Min(name string, n int64) {
	c.mu.Lock()
	if v, ok := c.res.Minima[name]; !ok || n < v {
		c.res.Minima[name] = n
	}
	c.mu.Unlock()
}

// SetAdd adds a member to a named set (e.g. distinct outcomes); sets are capped at 2000 members.
func (c *Ctx) SetAdd(name, member string) {
	c.mu.Lock()
	s := c.sets[name]
	if s == nil {
		s = map[string]bool{}
		c.sets[name] = s
	}
	if len(s) < 2000 {
		s[member] = true
	}
	c.mu.Unlock()
}

// Sample keeps up to 6 sample cases.
func (c *Ctx) Sample(x any) {
	c.mu.Lock()
	if len(c.res.Samples) < 6 {
		c.res.Samples = append(c.res.Samples, x)
	}
	c.mu.Unlock()
}

// WantSample reports whether another sample would be kept (so callers can avoid building it).
func (c *Ctx) WantSample() bool {
	c.mu.Lock()
	defer c.mu.Unlock()
	return len(c.res.Samples) < 6
}

// Note adds a free-text note to the evidence.
func (c *Ctx) Note(format string, a ...any) {
	c.mu.Lock()
	c.res.Notes = append(c.res.Notes, fmt.Sprintf(format, a...))
	c.mu.Unlock()
}

// Violate records a violation.  Only the first case per key is kept (with a count).
func (c *Ctx) Violate(key, detail string, cas any) {
	c.mu.Lock()
	defer c.mu.Unlock()
	if v := c.vioByKey[key]; v != nil {
		v.Count++
		if b, err := json.Marshal(cas); err == nil && len(b) < len(v.Case) {
			v.Case, v.Detail = b, detail
			if len(v.Detail) > 1500 {
				v.Detail = v.Detail[:1500] + "…"
			}
		}
		return
	}
	if len(c.vioByKey) >= 200 {
		return
	}
	b, err := json.Marshal(cas)
	if err != nil {
		b, _ = json.Marshal(fmt.Sprintf("%v", cas))
	}
	if len(detail) > 1500 {
		detail = detail[:1500] + "…"
	}
	v := &Violation{Key: key, Detail: detail, Case: b, Count: 1}
	c.vioByKey[key] = v
	c.res.Violations = append(c.res.Violations, v)
	c.flushLocked()
}

// NViolations returns the number of distinct violation keys so far.
func (c *Ctx) NViolations() int {
	c.mu.Lock()
	defer c.mu.Unlock()
	return len(c.vioByKey)
}

// Guard runs f and converts a panic in the calling goroutine into a violation with the given
// key prefix; it returns true if f panicked.
func (c *Ctx) Guard(keyPrefix string, cas any, f func()) (panicked bool) {
	defer func() {
		if r := recover(); r != nil {
			panicked = true
			st := string(debug.Stack())
			c.Violate(keyPrefix+"|panic|"+PanicSite(st), fmt.Sprintf("panic: %v\n%s", r, trimStack(st)), cas)
		}
	}()
	f()
	return false
}

// PanicSite extracts the first inbucket frame (function name) below the panic from a stack dump.
func PanicSite(stack string) string {
	lines := strings.Split(stack, "\n")
	seenPanic := false
	for _, l := range lines {
		if strings.HasPrefix(l, "panic(") {
			seenPanic = true
			continue
		}
		if !seenPanic {
			continue
		}
		if strings.HasPrefix(l, "github.com/inbucket/inbucket/v3/") {
			f := strings.TrimPrefix(l, "github.com/inbucket/inbucket/v3/")
			if i := strings.LastIndex(f, "("); i > 0 {
				f = f[:i]
			}
			return f
		}
	}
	// no panic( line (e.g. fatal error): first inbucket frame anywhere
	for _, l := range lines {
		if strings.HasPrefix(l, "github.com/inbucket/inbucket/v3/") {
			f := strings.TrimPrefix(l, "github.com/inbucket/inbucket/v3/")
			if i := strings.LastIndex(f, "("); i > 0 {
				f = f[:i]
			}
			return f
		}
	}
	return "unknown"
}

func trimStack(s string) string {
	if len(s) > 1200 {
		return s[:1200]
	}
	return s
}

func (c *Ctx) flushLocked() {
	c.lastFlush = time.Now()
	if c.out == "" {
		return
	}
	r := c.res
	r.CasesDone = c.caseNo
	r.WallS = time.Since(c.start).Seconds()
	r.Sets = map[string][]string{}
	for k, s := range c.sets {
		var l []string
		for m := range s {
			l = append(l, m)
		}
		sort.Strings(l)
		r.Sets[k] = l
	}
	b, _ := json.Marshal(&r)
	tmp := c.out + ".tmp"
	if os.WriteFile(tmp, b, 0o644) == nil {
		_ = os.Rename(tmp, c.out)
	}
}

// Body is a check clause.
type Body struct {
	ID   string // property id, e.g. "C07"
	Part string // clause name, e.g. "seq"
	Run  func(c *Ctx)
	// ReplayCase re-executes one recorded case (from Violation.Case); violations are
	// recorded on c in the normal way.
	ReplayCase func(c *Ctx, cas json.RawMessage)
}

var registry = map[string]*Body{}

// Register adds a clause to the registry of this binary.
func Register(b *Body) { registry[b.ID+"/"+b.Part] = b }

func envInt(name string, def int64) int64 {
	if s := os.Getenv(name); s != "" {
		if n, err := strconv.ParseInt(s, 10, 64); err == nil {
			return n
		}
	}
	return def
}

// WorkerMain is called from the single Test function of the checks binary.
func WorkerMain(t *testing.T) {
	id := os.Getenv("VERIF_CHECK")
	if id == "" {
		t.Skip("VERIF_CHECK not set")
	}
	part := os.Getenv("VERIF_PART")
	b := registry[id+"/"+part]
	if b == nil {
		var have []string
		for k := range registry {
			have = append(have, k)
		}
		sort.Strings(have)
		t.Fatalf("no clause %s/%s in this binary (have %v)", id, part, have)
	}
	c := &Ctx{
		Check: id, Part: part, T: t,
		Tier:    os.Getenv("VERIF_TIER"),
		Shard:   int(envInt("VERIF_SHARD", 0)),
		NShards: int(envInt("VERIF_NSHARDS", 1)),
		Seed:    envInt("VERIF_SEED", 0),
		SkipSet: map[string]bool{},
		out:     os.Getenv("VERIF_OUT"),
		start:   time.Now(),
	}
	if c.Tier == "" {
		c.Tier = "quick"
	}
	budget := envInt("VERIF_BUDGET_S", 0)
	if budget <= 0 {
		budget = 100
		if c.Thorough() {
			budget = 1500
		}
	}
	c.deadline = c.start.Add(time.Duration(budget) * time.Second)
	c.lastFlush = c.start
	c.vioByKey = map[string]*Violation{}
	c.sets = map[string]map[string]bool{}
	c.res = Result{Check: id, Part: part, Shard: c.Shard, Counters: map[string]int64{}, Maxima: map[string]int64{}, Minima: map[string]int64{}}
	if sf := os.Getenv("VERIF_SKIPFILE"); sf != "" {
		if raw, err := os.ReadFile(sf); err == nil {
			var l []json.RawMessage
			if json.Unmarshal(raw, &l) == nil {
				for _, x := range l {
					var buf bytes.Buffer
					if json.Compact(&buf, x) == nil {
						c.SkipSet[buf.String()] = true
					}
				}
			}
		}
	}
	if j := os.Getenv("VERIF_JOURNAL"); j != "" {
		f, err := os.OpenFile(j, os.O_CREATE|os.O_RDWR|os.O_TRUNC, 0o644)
		if err == nil {
			c.journal = f
		}
	}
	if rp := os.Getenv("VERIF_REPLAY"); rp != "" {
		raw, err := os.ReadFile(rp)
		if err != nil {
			t.Fatalf("replay file: %v", err)
		}
		// a replay file is either a bare case or {"case":...}
		var wrap struct {
			Case json.RawMessage `json:"case"`
		}
		if json.Unmarshal(raw, &wrap) == nil && len(wrap.Case) > 0 {
			raw = wrap.Case
		}
		if b.ReplayCase == nil {
			t.Fatalf("clause %s/%s has no replay", id, part)
		}
		c.deadline = c.start.Add(24 * time.Hour)
		b.ReplayCase(c, raw)
	} else {
		b.Run(c)
	}
	c.mu.Lock()
	c.res.Exhaustive = !c.cut
	c.flushLocked()
	c.mu.Unlock()
}
