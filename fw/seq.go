package fw

// SeqExplorer enumerates operation sequences over an alphabet of NOps operations, bounded
// exhaustively: every sequence up to FullDepth is executed; beyond it (up to MaxDepth) a
// sequence is extended only if the canonical state key it reaches was not reached before at a
// shorter-or-equal depth (explicit-state search; sound when Key captures the whole state).
//
// Live objects cannot be cloned, so Run replays the whole sequence on a fresh instance; it must
// check the oracle after every step >= from (earlier steps were checked when the prefix was
// itself the sequence) and return the key of the final state and whether to extend.
type SeqExplorer struct {
	C         *Ctx
	NOps      int
	FullDepth int
	MaxDepth  int
	// Run executes seq on a fresh instance.  extend=false stops extension (violation found or the
	// sequence is terminal).  nontrivial reports that the LAST step changed state / succeeded.
	Run func(seq []int) (key string, extend bool, nontrivial bool)
	// Desc renders a sequence for journals and samples.
	Desc func(seq []int) any

	seen map[string]int
}

// Explore runs the search for this worker's shard (level-2 subtrees are dealt round-robin).
// In the thorough tier the maximum depth is raised one level at a time (iterative deepening), so
// that when the time budget cuts the run the evidence still names the deepest bound that was
// explored completely ("completed_max_depth").
func (e *SeqExplorer) Explore() {
	if e.MaxDepth < e.FullDepth {
		e.MaxDepth = e.FullDepth
	}
	if !e.C.Thorough() {
		e.exploreTo(e.MaxDepth)
		if e.C.Expired() {
			e.C.Min("completed_max_depth", int64(e.FullDepth)-1)
		} else {
			e.C.Min("completed_max_depth", int64(e.MaxDepth))
		}
		return
	}
	final := e.MaxDepth
	done := e.FullDepth - 1
	for md := e.FullDepth; md <= final; md++ {
		e.exploreTo(md)
		if e.C.Expired() {
			break
		}
		done = md
	}
	// the minimum over every explorer run (configuration, backend) and every shard
	e.C.Min("completed_max_depth", int64(done))
}

func (e *SeqExplorer) exploreTo(maxDepth int) {
	e.seen = map[string]int{}
	e.MaxDepth = maxDepth
	// depth-1 nodes are executed by shard 0 only (they are prefixes of everything)
	for a := 0; a < e.NOps; a++ {
		seq := []int{a}
		var ext bool
		if e.C.Shard == 0 {
			ext = e.node(seq)
		} else {
			// still need to know whether to extend: execute without counting
			if e.C.Journal(func() any { return e.Desc(seq) }) {
				_, ext, _ = e.Run(seq)
			}
		}
		if !ext || e.MaxDepth < 2 {
			continue
		}
		for b := 0; b < e.NOps; b++ {
			if !e.C.Mine(a*e.NOps + b) {
				continue
			}
			if e.C.Expired() {
				return
			}
			e.dfs([]int{a, b})
		}
	}
}

func (e *SeqExplorer) node(seq []int) bool {
	if !e.C.Begin(func() any { return e.Desc(seq) }) {
		return false // a case that crashed the process before: recorded by the runner, not extended
	}
	key, ext, nontriv := e.Run(seq)
	if nontriv {
		e.C.Nontrivial(1)
		if e.C.WantSample() && len(seq) >= 2 {
			e.C.Sample(e.Desc(seq))
		}
	}
	e.C.Max("max_depth", int64(len(seq)))
	if !ext {
		return false
	}
	if len(seq) >= e.FullDepth && key != "" {
		if d, ok := e.seen[key]; ok && d <= len(seq) {
			e.C.Count("pruned_by_state", 1)
			return false
		}
		e.seen[key] = len(seq)
		e.C.Count("states", 1)
	}
	return true
}

func (e *SeqExplorer) dfs(seq []int) {
	if !e.node(seq) || len(seq) >= e.MaxDepth {
		return
	}
	for o := 0; o < e.NOps; o++ {
		if e.C.Expired() {
			return
		}
		e.dfs(append(append([]int{}, seq...), o))
	}
}
