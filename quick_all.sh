#!/bin/bash
# Runs every check's quick command once; prints one line per check. Used for stability sweeps.
cd "${VERIF_ROOT:-/verif}"
for c in C01 C02 C03 C04 C05 C06 C07 C08 C09 C10 C11 C12 C13 C14 C15 C16 C17 C18 C19; do
  out=$(./verif.sh check $c --tier quick 2>&1); e=$?
  echo "exit=$e $(echo "$out" | tail -1)"
  echo "$out" | grep -E "^VIOLATION|^BROKEN|^UNCONFIRMED" | head -3
done
