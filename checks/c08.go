package checks

import (
	"encoding/json"

	"verif/fw"
	"verif/sys"
)

// C08 — mailbox cap and store size limit evict oldest-first and only what is necessary.

var c08Ops = func() []sop {
	var o []sop
	for mb := 0; mb < 2; mb++ {
		for _, sz := range []int{300, 600, 1100, 2100} {
			o = append(o, sop{Kind: "add", MB: mb, Size: sz})
		}
	}
	for mb := 0; mb < 2; mb++ {
		o = append(o, sop{Kind: "remove", MB: mb, Ref: "oldest"}, sop{Kind: "remove", MB: mb, Ref: "newest"})
	}
	o = append(o, sop{Kind: "purge", MB: 0}, sop{Kind: "purge", MB: 1})
	// a restart (file store: a new process, the id counter starts again; no-op on the memory store)
	o = append(o, sop{Kind: "reopen"})
	// marking a message seen changes no size and no count - and must not change what the limits do
	// with the message later
	// deliveries that carry the same received date: which message is the oldest is a matter of
	// arrival, not of the date
	o = append(o, sop{Kind: "add", MB: 0, Size: 300, Same: true}, sop{Kind: "add", MB: 1, Size: 600, Same: true})
	o = append(o, sop{Kind: "seen", MB: 0, Ref: "oldest"}, sop{Kind: "seen", MB: 0, Ref: "newest"}, sop{Kind: "seen", MB: 1, Ref: "newest"})
	return o
}()

func c08Specs() []sys.StoreSpec {
	var specs []sys.StoreSpec
	for _, cap := range []int{1, 2, 0, 3} {
		for _, kb := range []int{1, 2, 0} {
			specs = append(specs, sys.StoreSpec{Backend: "mem", Cap: cap, MaxKB: kb})
		}
	}
	for _, cap := range []int{1, 2, 0, 3} {
		specs = append(specs, sys.StoreSpec{Backend: "file", Cap: cap})
	}
	return specs
}

func c08Run(c *fw.Ctx) {
	for _, spec := range c08Specs() {
		spec := spec
		e := &fw.SeqExplorer{
			C: c, NOps: len(c08Ops),
			FullDepth: fw.Pick(c, 3, 5),
			MaxDepth:  fw.Pick(c, 4, 7),
			Run: func(seq []int) (string, bool, bool) {
				return runStoreSeq(c, spec, c08Ops, seq)
			},
			Desc: func(seq []int) any { return descStoreSeq(spec, c08Ops, seq) },
		}
		e.Explore()
		c.SetAdd("configs", spec.String())
		// directed histories beyond the quick depth: a mailbox filled to its cap, a message that is
		// NOT the oldest removed, one delivery, then every operation twice over - the cap must go on
		// evicting the oldest
		if spec.Cap >= 1 && spec.Backend == "file" && c.Shard == 0 {
			// a full mailbox, a delivery whose eviction cannot commit its index at the first attempt,
			// then every operation
			fault := sop{Kind: "add", MB: 0, Body: 0, IdxFault: true}
			ops := append(append([]sop{}, c08Ops...), fault)
			var prefix []int
			for i := 0; i < spec.Cap; i++ {
				prefix = append(prefix, 0)
			}
			prefix = append(prefix, len(ops)-1)
			for x := range c08Ops {
				seq := append(append([]int{}, prefix...), x)
				if !c.Begin(func() any { return descStoreSeq(spec, ops, seq) }) {
					continue
				}
				if _, _, nt := runStoreSeqFrom(c, spec, ops, seq, len(prefix)-1); nt {
					c.Nontrivial(1)
				}
			}
		}
		if spec.Cap >= 2 && c.Shard == 0 {
			find := func(want string) int {
				for i, o := range c08Ops {
					if o.String() == want {
						return i
					}
				}
				panic("VERIF-INFRA no op " + want)
			}
			add, rmNewest := find("add(m1,300B)"), find("remove(m1,newest)")
			var prefix []int
			for i := 0; i < spec.Cap; i++ {
				prefix = append(prefix, add)
			}
			prefix = append(prefix, rmNewest, add)
			for x := range c08Ops {
				for y := range c08Ops {
					if c.Expired() {
						return
					}
					seq := append(append([]int{}, prefix...), x, y)
					if !c.Begin(func() any { return descStoreSeq(spec, c08Ops, seq) }) {
						continue
					}
					_, _, nt := runStoreSeqFrom(c, spec, c08Ops, seq, len(prefix))
					if nt {
						c.Nontrivial(1)
					}
				}
			}
		}
	}
}

func c08Replay(c *fw.Ctx, raw json.RawMessage) {
	var cas storeCase
	if err := json.Unmarshal(raw, &cas); err != nil {
		c.T.Fatalf("VERIF-INFRA bad case: %v", err)
	}
	// (the directed histories use one more op, appended to the alphabet: same indices otherwise)
	runStoreSeq(c, cas.Spec, append(append([]sop{}, c08Ops...), sop{Kind: "add", MB: 0, Body: 0, IdxFault: true}), cas.Seq)
}

func init() {
	fw.Register(&fw.Body{ID: "C08", Part: "seq", Run: c08Run, ReplayCase: c08Replay})
}
