package checks

import (
	"encoding/json"
	"fmt"
	"io/fs"
	"os"
	"path/filepath"
	"strings"

	"verif/fw"
	"verif/model"
	"verif/sys"
)

// C01 — accepted mail is stored exactly once per accepted recipient, and only then.

var c01Pool = []string{"a@keep.test", "A+x@keep.test", "b@keep.test", "a@drop.test", "b@rej.test", "no-at-sign"}

var c01Terms = []string{"DATA-hdr", "DATA-plain", "RSET", "EHLO", "MAIL", "QUIT", "DROP", "DATA-DROP"}

type c01Txn struct {
	Rcpts []int  `json:"rcpts"`
	Term  string `json:"term"`
}

type c01Case struct {
	Naming  string   `json:"naming"`
	Policy  string   `json:"policy"` // "store-default" | "discard-default" | "discard-default+inert-discard-list"
	Backend string   `json:"backend"`
	Txns    []c01Txn `json:"txns"`
	// Fault > 0: the Fault-th AddMessage of the connection is refused by the store (environment
	// fault); FaultStays: so is every later one.
	Fault      int  `json:"fault,omitempty"`
	FaultStays bool `json:"fault_stays,omitempty"`
	// IndexFaultTxn > 0 (file store): just before the DATA of transaction number IndexFaultTxn
	// (0-based) the disk "fills up" for the index of one mailbox - the mailbox of the
	// IndexFaultPos-th (1-based) storable recipient of that transaction: index.gob.tmp in its
	// directory is a symbolic link to /dev/full, so the index can be created and written into the
	// buffer, and the flush fails with ENOSPC.  inbucket removes the link when it gives up, so the
	// fault is gone at the client's retry.
	IndexFaultTxn int `json:"index_fault_txn,omitempty"`
	IndexFaultPos int `json:"index_fault_pos,omitempty"`
}

// c01IndexFiles lists the index files under the store directory.
func c01IndexFiles(dir string) map[string]bool {
	out := map[string]bool{}
	_ = filepath.WalkDir(dir, func(p string, d fs.DirEntry, err error) error {
		if err == nil && !d.IsDir() && d.Name() == "index.gob" {
			out[p] = true
		}
		return nil
	})
	return out
}

func c01Spec(cas c01Case) sys.Spec {
	smtp := sys.DefaultSMTP()
	smtp.RejectDomains = []string{"rej.test"}
	switch cas.Policy {
	case "store-default+limit-1":
		// a recipient refused for exceeding the limit is not a recipient of the transaction
		smtp.DefaultStore = true
		smtp.DiscardDomains = []string{"drop.test"}
		smtp.MaxRecipients = 1
	case "store-default":
		smtp.DefaultStore = true
		smtp.DiscardDomains = []string{"drop.test"}
	case "discard-default+inert-discard-list":
		// the discard list is consulted only when the default is to store (doc/config.md): here
		// it is inert, although it names the very domain the store list names
		smtp.DefaultStore = false
		smtp.StoreDomains = []string{"keep.test"}
		smtp.DiscardDomains = []string{"keep.test"}
	default:
		smtp.DefaultStore = false
		smtp.StoreDomains = []string{"keep.test"}
	}
	sp := sys.Spec{Store: sys.StoreSpec{Backend: cas.Backend}, Naming: cas.Naming, SMTP: smtp, NoHub: true}
	if cas.Fault > 0 {
		sp.AddFault = &sys.AddFault{At: cas.Fault, Persistent: cas.FaultStays}
	}
	return sp
}

func c01Policy(cas c01Case) model.Policy {
	p := model.Policy{DefaultAccept: true, Reject: []string{"rej.test"}}
	if strings.HasPrefix(cas.Policy, "store-default") {
		p.DefaultStore = true
		p.Discard = []string{"drop.test"}
	} else {
		p.Store = []string{"keep.test"}
	}
	return p
}

// c01Exec runs one connection script and checks the store after every transaction end.
func c01Exec(c *fw.Ctx, cas c01Case) (nontrivial bool) {
	spec := c01Spec(cas)
	s := sys.New(spec)
	defer s.Close()
	pol := c01Policy(cas)
	mo := model.NewStore(0, 0)
	k := s.DialSMTP()
	d := &sys.SMTPDriver{K: k}
	fail := func(key, detail string) {
		c.Violate(cas.Backend+"|"+key, detail+"\nconfig: naming="+cas.Naming+" policy="+cas.Policy+"\ndialogue:\n  "+strings.Join(d.Log, "\n  "), cas)
	}
	check := func(exp []sys.Expect) bool {
		probs := s.CheckDelivery(mo, exp, "a", "b", "a@keep.test", "b@keep.test", "a@drop.test", "keep.test", "drop.test", "rej.test", "b@rej.test")
		for _, p := range probs {
			fail(p[0], p[1])
		}
		return len(probs) == 0
	}
	defer func() {
		k.Close()
		<-k.Done
	}()
	if r := d.Greeting(); r.Code != 220 {
		fail("greeting", "no 220 greeting: "+r.String())
		return
	}
	if r := d.Cmd("HELO client.test"); r.Class() != 2 {
		fail("helo", "HELO refused: "+r.String())
		return
	}
	addCalls := 0                 // AddMessage calls the unchanged server has made so far on this connection
	boxDir := map[string]string{} // file store: mailbox name -> its directory, learnt from the first delivery
	for ti, t := range cas.Txns {
		// every transaction of a connection has its own sender: what an earlier one stored keeps the
		// sender it was stored with
		sender := "s@o.test"
		if ti > 0 {
			sender = fmt.Sprintf("s%d@o.test", ti+1)
		}
		if r := d.Cmd("MAIL FROM:<" + sender + ">"); !r.OK {
			fail("mail|no-reply", "no reply to MAIL: "+r.Why)
			return
		}
		for _, ri := range t.Rcpts {
			addr := c01Pool[ri]
			r := d.Cmd("RCPT TO:<" + addr + ">")
			if !r.OK {
				fail("rcpt|no-reply", "no reply to RCPT: "+r.Why)
				return
			}
		}
		var exp []sys.Expect
		ended := false
		switch t.Term {
		case "DATA-hdr", "DATA-plain":
			subject := ""
			body := fmt.Sprintf("plain body of transaction %d\r\nsecond line\r\n", ti)
			if t.Term == "DATA-hdr" {
				subject = fmt.Sprintf("subj %d", ti)
				to := strings.Join(d.Rcpts, ", ")
				if to == "" {
					to = "nobody@o.test"
				}
				body = "From: " + d.From + "\r\nTo: " + to + "\r\nSubject: " + subject + "\r\n\r\nbody with headers " + fmt.Sprint(ti) + "\r\n"
			}
			envFrom, envRcpts := d.From, append([]string{}, d.Rcpts...)
			var hitsBefore int64
			if spec.AddFault != nil {
				hitsBefore = spec.AddFault.Hits.Load()
			}
			var storable []string
			for _, a := range envRcpts {
				if pol.StoreRcpt(model.DomainOf(a)) {
					storable = append(storable, a)
				}
			}
			planted, plantedBox := "", ""
			if cas.IndexFaultTxn > 0 && ti == cas.IndexFaultTxn && cas.IndexFaultPos <= len(storable) {
				plantedBox = model.SimpleMailbox(cas.Naming, storable[cas.IndexFaultPos-1])
				dir, ok := boxDir[plantedBox]
				if !ok {
					c.T.Fatalf("VERIF-INFRA directory of mailbox %q not learnt (case %+v)", plantedBox, cas)
				}
				planted = filepath.Join(dir, "index.gob.tmp")
				if err := os.Symlink("/dev/full", planted); err != nil {
					c.T.Fatalf("VERIF-INFRA symlink: %v", err)
				}
				d.Log = append(d.Log, "   (environment: the disk is full for the index of mailbox "+plantedBox+")")
			}
			before := map[string]bool{}
			if cas.IndexFaultTxn > 0 {
				before = c01IndexFiles(s.StoreH.Dir)
			}
			mid, fin := d.Data(body)
			if mid.Code == 354 && !fin.OK {
				fail("data|no-reply", "no reply after the terminating dot: "+fin.Why)
				return
			}
			faultHit := spec.AddFault != nil && spec.AddFault.Hits.Load() > hitsBefore
			failPos := -1 // position among the storable recipients of the copy that failed
			if planted != "" {
				if _, err := os.Lstat(planted); err != nil {
					faultHit = true // the store used (and cleared away) the link
					c.Count("index_write_faults_hit", 1)
				} else {
					_ = os.Remove(planted)
					c.Count("index_write_faults_not_reached", 1)
				}
				for i, a := range storable {
					if model.SimpleMailbox(cas.Naming, a) == plantedBox {
						failPos = i
						break
					}
				}
			} else if spec.AddFault != nil {
				for i := range storable {
					n := addCalls + i + 1
					if n == cas.Fault || (cas.FaultStays && n > cas.Fault) {
						failPos = i
						break
					}
				}
			}
			if faultHit && mid.Code == 354 && fin.Class() != 2 {
				// The store refused a delivery and the transaction was refused (451): "a transaction
				// that is refused adds nothing to any mailbox".
				names := []string{"a", "b", "a@keep.test", "b@keep.test", "keep.test"}
				p0 := s.CheckDelivery(mo, nil, names...)
				if len(p0) == 0 {
					continue
				}
				// what inbucket does: the copies made before the failing one stay.  That shape - one
				// copy for each storable recipient that precedes the failure, nothing else - is the
				// recorded finding; anything else (a second copy, a later recipient) is reported as is.
				var part []sys.Expect
				for i, a := range storable {
					addCalls++
					if i == failPos {
						break
					}
					part = append(part, sys.Expect{Mailbox: model.SimpleMailbox(cas.Naming, a), From: envFrom, To: envRcpts, Subject: subject, Data: body})
				}
				if len(part) > 0 && len(s.CheckDelivery(mo, part, names...)) == 0 {
					fail("fault|refused-after-partial-delivery", fmt.Sprintf("the store refused the copy for recipient number %d of the transaction; the server answered %q, yet the %d recipient(s) before it keep their copy: the refused transaction did add to mailboxes (and a client that retries after 451 delivers them a second copy)", len(part)+1, fin.String(), len(part)))
					continue
				}
				for _, p := range p0 {
					fail("fault|"+p[0], "the store refused one delivery and the server answered "+fin.String()+": "+p[1])
				}
				return
			}
			if mid.Code == 354 && fin.Class() == 2 {
				from, rcpts := d.Delivered()
				for _, a := range rcpts {
					if pol.StoreRcpt(model.DomainOf(a)) {
						addCalls++
						exp = append(exp, sys.Expect{Mailbox: model.SimpleMailbox(cas.Naming, a), From: from, To: rcpts, Subject: subject, Data: body})
					}
				}
				if len(exp) > 0 {
					nontrivial = true
				}
				if cas.IndexFaultTxn > 0 && len(exp) == 1 {
					for p := range c01IndexFiles(s.StoreH.Dir) {
						if !before[p] {
							boxDir[exp[0].Mailbox] = filepath.Dir(p)
						}
					}
				}
			}
		case "RSET", "EHLO":
			d.Cmd(map[string]string{"RSET": "RSET", "EHLO": "EHLO again.test"}[t.Term])
		case "MAIL":
			d.Cmd("MAIL FROM:<other@o.test>")
		case "QUIT":
			d.Cmd("QUIT")
			ended = true
		case "DROP":
			ended = true
		case "DATA-DROP":
			if r := d.Cmd("DATA"); r.Code == 354 {
				_ = k.Write([]byte("Subject: never finished\r\n\r\npartial body\r\n"))
			}
			ended = true
		}
		if ended {
			k.Close()
			<-k.Done
		}
		if !check(exp) || ended {
			return
		}
	}
	// end of script: close and make sure nothing appears afterwards
	k.Close()
	<-k.Done
	check(nil)
	return
}

func c01Run(c *fw.Ctx) {
	maxR := fw.Pick(c, 2, 3)
	var rcptSeqs [][]int
	var gen func(cur []int)
	gen = func(cur []int) {
		rcptSeqs = append(rcptSeqs, append([]int{}, cur...))
		if len(cur) == maxR {
			return
		}
		for i := range c01Pool {
			gen(append(cur, i))
		}
	}
	gen(nil)
	// second/third transactions: reduced in the quick tier
	var tail []c01Txn
	if c.Thorough() {
		for _, rs := range rcptSeqs {
			if len(rs) <= 2 {
				for _, t := range []string{"DATA-hdr", "DATA-plain", "RSET", "QUIT"} {
					tail = append(tail, c01Txn{rs, t})
				}
			}
		}
	} else {
		for _, rs := range rcptSeqs {
			if len(rs) <= 1 {
				for _, t := range []string{"DATA-plain", "QUIT"} {
					tail = append(tail, c01Txn{rs, t})
				}
			}
		}
	}
	n := 0
	for _, be := range []string{"mem", "file"} {
		for _, naming := range []string{"local", "full", "domain"} {
			for _, pol := range []string{"store-default", "discard-default", "discard-default+inert-discard-list", "store-default+limit-1"} {
				for _, rs := range rcptSeqs {
					for _, t := range c01Terms {
						n++
						if !c.Mine(n) {
							continue
						}
						if c.Expired() {
							return
						}
						first := c01Txn{rs, t}
						run := func(txns []c01Txn) {
							cas := c01Case{Naming: naming, Policy: pol, Backend: be, Txns: txns}
							if !c.Begin(func() any { return cas }) {
								return
							}
							var nt bool
							c.Guard(be, cas, func() { nt = c01Exec(c, cas) })
							if nt {
								c.Nontrivial(1)
								if c.WantSample() {
									c.Sample(cas)
								}
							}
						}
						run([]c01Txn{first})
						if t == "QUIT" || t == "DROP" || t == "DATA-DROP" {
							continue
						}
						for _, t2 := range tail {
							run([]c01Txn{first, t2})
							if c.Thorough() && t2.Term != "QUIT" && len(rs) <= 1 && len(t2.Rcpts) <= 1 {
								for _, t3 := range []c01Txn{{[]int{0}, "DATA-plain"}, {[]int{2, 3}, "DATA-hdr"}} {
									run([]c01Txn{first, t2, t3})
								}
							}
						}
					}
				}
			}
		}
	}
}

// c01FaultRun - one refused AddMessage (an environment fault) at every position of multi-recipient
// transactions: an acknowledged transaction still means exactly one copy per accepted recipient,
// a refused one adds nothing.  The fault is the first transaction's; the second transaction shows
// what a retry by the client does.
func c01FaultRun(c *fw.Ctx) {
	storable := []int{0, 1, 2, 3} // a, A+x (the same mailbox under local naming), b, a@drop.test (not stored)
	var rcptSeqs [][]int
	var gen func(cur []int)
	gen = func(cur []int) {
		if len(cur) >= 2 {
			rcptSeqs = append(rcptSeqs, append([]int{}, cur...))
		}
		if len(cur) == 3 {
			return
		}
		for _, i := range storable {
			gen(append(cur, i))
		}
	}
	gen(nil)
	n := 0
	for _, be := range []string{"mem", "file"} {
		for _, naming := range []string{"local", "full"} {
			for _, rs := range rcptSeqs {
				for _, term := range []string{"DATA-hdr", "DATA-plain"} {
					for k := 1; k <= len(rs); k++ {
						for _, stays := range []bool{false, true} {
							n++
							if !c.Mine(n) {
								continue
							}
							if c.Expired() {
								return
							}
							cas := c01Case{Naming: naming, Policy: "store-default", Backend: be, Fault: k, FaultStays: stays,
								Txns: []c01Txn{{rs, term}, {rs, "DATA-plain"}}}
							if !c.Begin(func() any { return cas }) {
								continue
							}
							var nt bool
							c.Guard(be, cas, func() { nt = c01Exec(c, cas) })
							if nt {
								c.Nontrivial(1)
							}
						}
					}
					if be != "file" {
						continue
					}
					if fi, err := os.Stat("/dev/full"); err != nil || fi.Mode()&os.ModeCharDevice == 0 {
						c.NotExhaustive("no /dev/full on this machine: the index-write fault cannot be injected")
						continue
					}
					// the disk fills up for the index of the mailbox of the k-th storable recipient
					pol := c01Policy(c01Case{Policy: "store-default"})
					var setup []c01Txn
					seen := map[string]bool{}
					nStorable := 0
					for _, ri := range rs {
						if !pol.StoreRcpt(model.DomainOf(c01Pool[ri])) {
							continue
						}
						nStorable++
						if mb := model.SimpleMailbox(naming, c01Pool[ri]); !seen[mb] {
							seen[mb] = true
							setup = append(setup, c01Txn{[]int{ri}, "DATA-plain"})
						}
					}
					for k := 1; k <= nStorable; k++ {
						n++
						if !c.Mine(n) {
							continue
						}
						if c.Expired() {
							return
						}
						txns := append(append([]c01Txn{}, setup...), c01Txn{rs, term}, c01Txn{rs, "DATA-plain"})
						cas := c01Case{Naming: naming, Policy: "store-default", Backend: be, IndexFaultTxn: len(setup), IndexFaultPos: k, Txns: txns}
						if !c.Begin(func() any { return cas }) {
							continue
						}
						var nt bool
						c.Guard(be, cas, func() { nt = c01Exec(c, cas) })
						if nt {
							c.Nontrivial(1)
						}
					}
				}
			}
		}
	}
}

func c01Replay(c *fw.Ctx, raw json.RawMessage) {
	var cas c01Case
	if err := json.Unmarshal(raw, &cas); err != nil {
		c.T.Fatalf("VERIF-INFRA bad case: %v", err)
	}
	c.Guard(cas.Backend, cas, func() { c01Exec(c, cas) })
}

func init() {
	fw.Register(&fw.Body{ID: "C01", Part: "seq", Run: c01Run, ReplayCase: c01Replay})
	fw.Register(&fw.Body{ID: "C01", Part: "fault", Run: c01FaultRun, ReplayCase: c01Replay})
}
