//go:build sched

package checks

import (
	"encoding/json"
	"fmt"
	"path/filepath"
	"sort"
	"strings"
	"sync"
	"sync/atomic"
	"syscall"

	"github.com/inbucket/inbucket/v3/pkg/extension/event"
	"github.com/inbucket/inbucket/v3/pkg/policy"
	"github.com/inbucket/inbucket/v3/pkg/storage"
	"github.com/inbucket/inbucket/v3/pkg/vrt/vsched"

	"verif/fw"
	"verif/sys"
)

// C16, order clause: one client performs deliver, deliver, delete(first) (and variants); the
// listener body is enter; scheduling point; exit.  Over all schedules of the asynchronous event
// goroutines: no invocation of the extension's handlers starts while a previous one has not
// finished; stored(x) is seen before deleted(x); stored events of one mailbox arrive in delivery
// order.

type c16OrdSpec struct {
	ID    string
	Store sys.StoreSpec
	Init  []string // performed before the exploration starts
	Ops   []string // "deliver x" | "deliverbig x" (600-byte body) | "delete first" | "purge x"
	Ops2  []string // a second client running at the same time (optional)
	// Racing: client2 delivers into the mailbox client 1 is emptying.  StoreManager.Deliver announces
	// a message after AddMessage has returned, so a removal by ANOTHER client that falls into that
	// window is announced first; the statement's quantifier is about one history and the scheduling
	// of its event dispatch, not about two clients, so the order of the racing message's two events
	// is counted, not alarmed on.  Exactly-once and one-at-a-time are checked all the same.
	Racing bool
	// FaultAt k > 0: the k-th file-system call (create, open, remove, rename) that the file store
	// makes during the operation written "deliver! <mailbox>" fails with EIO - one departure from
	// the environment's default answer; everything before and after it succeeds.  Whatever the store
	// makes of the failure, the events and the listings must still agree: a message that is listed
	// was announced, a message announced as deleted had been announced as stored.
	FaultAt int
	Bound   [2]int
}

func c16OrdSpecs() []c16OrdSpec {
	specs := []c16OrdSpec{
		{ID: "O1-mem-deliver-deliver-delete", Store: sys.StoreSpec{Backend: "mem"}, Ops: []string{"deliver x", "deliver x", "delete first"}, Bound: [2]int{2, 3}},
		{ID: "O2-file-deliver-delete-deliver", Store: sys.StoreSpec{Backend: "file"}, Ops: []string{"deliver x", "delete first", "deliver x"}, Bound: [2]int{2, 3}},
		{ID: "O3-mem-cap1-deliver-deliver", Store: sys.StoreSpec{Backend: "mem", Cap: 1}, Ops: []string{"deliver x", "deliver x"}, Bound: [2]int{2, 3}},
		{ID: "O4-file-deliver-deliver-purge", Store: sys.StoreSpec{Backend: "file"}, Ops: []string{"deliver x", "deliver x", "purge x"}, Bound: [2]int{2, 3}},
		// two clients: an explicit delete of the oldest message races with a delivery that makes
		// the size limit evict that same message - one 'deleted' event, whoever wins
		{ID: "O5-mem-maxkb-delete-vs-size-eviction", Store: sys.StoreSpec{Backend: "mem", MaxKB: 1}, Init: []string{"deliverbig x"},
			Ops: []string{"delete first"}, Ops2: []string{"deliverbig y"}, Bound: [2]int{2, 3}},
		{ID: "O6-mem-maxkb-purge-vs-size-eviction", Store: sys.StoreSpec{Backend: "mem", MaxKB: 1}, Init: []string{"deliverbig x"},
			Ops: []string{"purge x"}, Ops2: []string{"deliverbig y"}, Bound: [2]int{2, 3}},
		// a purge and a delivery to the same mailbox: whatever the order, a message that was announced
		// and is gone has its one 'deleted' event, a message that is still there has none
		{ID: "O7-file-purge-vs-delivery", Store: sys.StoreSpec{Backend: "file"}, Init: []string{"deliver x", "deliver x"},
			Ops: []string{"purge x"}, Ops2: []string{"deliver x"}, Racing: true, Bound: [2]int{2, 3}},
		// the retention scanner walks the store while the first message ever arrives in a mailbox
		{ID: "O9-mem-scan-vs-first-delivery", Store: sys.StoreSpec{Backend: "mem"}, Init: []string{"deliver y"},
			Ops: []string{"scan"}, Ops2: []string{"deliver x"}, Bound: [2]int{2, 3}},
		{ID: "O8-mem-purge-vs-delivery", Store: sys.StoreSpec{Backend: "mem"}, Init: []string{"deliver x", "deliver x"},
			Ops: []string{"purge x"}, Ops2: []string{"deliver x"}, Racing: true, Bound: [2]int{2, 3}},
	}
	// one failing file-system call inside a delivery: into a mailbox that exists (a delivery to an
	// existing mailbox makes four such calls; k = 6 is past the last call of either variant and
	// serves as the fault-free control), then the mailbox is purged; and into a new mailbox
	for k := 1; k <= 6; k++ {
		specs = append(specs,
			c16OrdSpec{ID: fmt.Sprintf("O10-file-delivery-fs-fault-%d-then-purge", k), Store: sys.StoreSpec{Backend: "file"}, Init: []string{"deliver x"},
				Ops: []string{"deliver! x", "purge x"}, FaultAt: k, Bound: [2]int{1, 2}},
			c16OrdSpec{ID: fmt.Sprintf("O11-file-first-delivery-fs-fault-%d", k), Store: sys.StoreSpec{Backend: "file"}, Init: []string{"deliver x"},
				Ops: []string{"deliver! y", "deliver x"}, FaultAt: k, Bound: [2]int{1, 2}})
	}
	for k := 1; k <= 6; k++ {
		specs = append(specs,
			c16OrdSpec{ID: fmt.Sprintf("O12-file-delete-fs-fault-%d-then-retry", k), Store: sys.StoreSpec{Backend: "file"}, Init: []string{"deliver x", "deliver x"},
				Ops: []string{"delete! first", "delete first"}, FaultAt: k, Bound: [2]int{1, 2}},
			c16OrdSpec{ID: fmt.Sprintf("O13-file-purge-fs-fault-%d-then-retry", k), Store: sys.StoreSpec{Backend: "file"}, Init: []string{"deliver x", "deliver x"},
				Ops: []string{"purge! x", "purge x"}, FaultAt: k, Bound: [2]int{1, 2}})
	}
	return specs
}

type c16Inv struct {
	kind, id    string
	enter, exit int64
	seq         int // order of entering
}

func c16OrdScenario(c *fw.Ctx, sp c16OrdSpec) schedScenario {
	run := func(cfg vsched.Config) (res schedResult) {
		var e *vsched.Exec
		var mu sync.Mutex
		var invs []*c16Inv
		var delivered []string // ids in delivery order
		final := map[string]bool{}
		finalOK := false
		var armed atomic.Bool
		var fsCalls atomic.Int64
		fired := ""
		leaked := inBubble(c.T, func() {
			e = vsched.Run(cfg, func() (func(), []vsched.Thread, func()) {
				s := sys.New(sys.Spec{Store: sp.Store, SMTP: sys.DefaultSMTP(), NoHub: true})
				vsched.FSFault = nil
				if sp.FaultAt > 0 {
					vsched.FSFault = func(op, path string) error {
						if armed.Load() && fsCalls.Add(1) == int64(sp.FaultAt) {
							fired = op + " " + filepath.Base(path)
							if strings.HasSuffix(path, ".raw") {
								fired = op + " <id>.raw"
							}
							return syscall.EIO
						}
						return nil
					}
				}
				handler := func(kind string) func(event.MessageMetadata) {
					return func(m event.MessageMetadata) {
						mu.Lock()
						inv := &c16Inv{kind: kind, id: m.Mailbox + "/" + m.ID, enter: vsched.StepNo(), exit: -1, seq: len(invs)}
						invs = append(invs, inv)
						mu.Unlock()
						vsched.Point("listener body (" + kind + ")")
						mu.Lock()
						inv.exit = vsched.StepNo()
						mu.Unlock()
					}
				}
				// one extension with two handlers, registered through the public API
				s.Ext.Events.AfterMessageStored.AddListener("verif-ext", handler("stored"))
				s.Ext.Events.AfterMessageDeleted.AddListener("verif-ext", handler("deleted"))
				client := func(ops []string) func() {
					return func() {
						st := s.StoreH.Store
						for _, op := range ops {
							f := strings.Fields(op)
							switch f[0] {
							case "deliver", "deliverbig", "deliver!":
								body := "Subject: o\r\n\r\nbody\r\n"
								if f[0] == "deliverbig" {
									body = "Subject: o\r\n\r\n" + sizedBody(600)
								}
								from, _ := s.Policy.ParseOrigin("s@o.test")
								rc, _ := s.Policy.NewRecipient(f[1] + "@x.test")
								before, _ := st.GetMessages(f[1])
								armed.Store(f[0] == "deliver!")
								_ = s.Mgr.Deliver(from, []*policy.Recipient{rc}, "Received: from c ([pipe]) by verif.test\r\n", []byte(body))
								armed.Store(false)
								after, _ := st.GetMessages(f[1])
								known := map[string]bool{}
								for _, m := range before {
									known[m.ID()] = true
								}
								for _, m := range after {
									if !known[m.ID()] {
										mu.Lock()
										delivered = append(delivered, f[1]+"/"+m.ID())
										mu.Unlock()
									}
								}
							case "delete", "delete!":
								mu.Lock()
								id := ""
								if len(delivered) > 0 {
									id = delivered[0]
								}
								mu.Unlock()
								if i := strings.IndexByte(id, '/'); i >= 0 {
									armed.Store(f[0] == "delete!")
									_ = st.RemoveMessage(id[:i], id[i+1:])
									armed.Store(false)
								}
							case "purge", "purge!":
								armed.Store(f[0] == "purge!")
								_ = st.PurgeMessages(f[1])
								armed.Store(false)
							case "scan":
								// what the retention scanner does on every pass (nothing is old enough to go)
								_ = st.VisitMailboxes(func(ms []storage.Message) bool { return true })
							}
						}
					}
				}
				var init func()
				if len(sp.Init) > 0 {
					init = client(sp.Init)
				}
				ths := []vsched.Thread{{Name: "client", F: client(sp.Ops)}}
				if len(sp.Ops2) > 0 {
					ths = append(ths, vsched.Thread{Name: "client2", F: client(sp.Ops2)})
				}
				return init, ths, func() {
					safely(func() {
						for _, mb := range []string{"x", "y"} {
							ms, err := s.StoreH.Store.GetMessages(mb)
							if err != nil {
								return
							}
							for _, m := range ms {
								final[mb+"/"+m.ID()] = true
							}
						}
						finalOK = true
					})
					vsched.FSFault = nil
					s.Close()
				}
			})
		})
		if leaked != "" && (e == nil || (len(e.Panics) == 0 && !e.Deadlock)) {
			res.Infra = "bubble: " + leaked
			return res
		}
		res.Exec = e
		res.Probs = append(res.Probs, stdProbs(e)...)
		if len(res.Probs) > 0 {
			res.Outcome = "abnormal"
			return res
		}
		sort.Slice(invs, func(i, j int) bool { return invs[i].seq < invs[j].seq })
		var order []string
		ord := map[string]int{}
		for i, d := range delivered {
			ord[d] = i + 1
		}
		racing := map[string]bool{}
		for _, in := range invs {
			if _, ok := ord[in.id]; !ok {
				// a delivery whose message was gone again before its client could list it
				ord[in.id] = len(ord) + 1
				racing[in.id] = true
			}
		}
		if sp.Racing && len(delivered) > 2 {
			racing[delivered[len(delivered)-1]] = true
		}
		for _, in := range invs {
			order = append(order, fmt.Sprintf("%s(#%d)", in.kind, ord[in.id]))
		}
		res.Outcome = strings.Join(order, " ")
		if sp.FaultAt > 0 {
			if fired == "" {
				res.Outcome += " [no fault: fewer calls]"
			} else {
				res.Outcome += " [failed: " + fired + "]"
			}
		}
		// (1) no overlap: an invocation may only start after every earlier one has finished
		for i, a := range invs {
			for _, b := range invs[i+1:] {
				if a.exit < 0 || b.enter < a.exit {
					res.Probs = append(res.Probs, [2]string{"overlap", fmt.Sprintf("the extension was invoked for %s(#%d) at step %d while its invocation for %s(#%d) (entered at step %d) had not finished (exit step %d)\ninvocations in order of entry: %s", b.kind, ord[b.id], b.enter, a.kind, ord[a.id], a.enter, a.exit, res.Outcome)})
					return res
				}
			}
		}
		// (1b) one event of each kind per message at most
		seenEv := map[string]bool{}
		for _, in := range invs {
			if seenEv[in.kind+in.id] {
				res.Probs = append(res.Probs, [2]string{in.kind + "-duplicate", fmt.Sprintf("the extension was told twice that message #%d (%s) was %s: %s", ord[in.id], in.id, in.kind, res.Outcome)})
				return res
			}
			seenEv[in.kind+in.id] = true
		}
		// (2) causal order
		pos := map[string]int{}
		for i, in := range invs {
			pos[in.kind+in.id] = i + 1
		}
		for _, in := range invs {
			if in.kind == "deleted" && pos["stored"+in.id] > pos["deleted"+in.id] {
				if sp.Racing && racing[in.id] {
					res.Outcome += " [racing message: deleted before stored, not alarmed]"
					continue
				}
				res.Probs = append(res.Probs, [2]string{"deleted-before-stored", fmt.Sprintf("the extension saw deleted(#%d) before stored(#%d): %s", ord[in.id], ord[in.id], res.Outcome)})
				return res
			}
		}
		// (3) accounting: every announced message that has left has its 'deleted' event, none that stayed;
		// nothing is announced as deleted that was never announced as stored, and what is listed at
		// the end was announced
		for _, in := range invs {
			if in.kind == "deleted" && !seenEv["stored"+in.id] {
				res.Probs = append(res.Probs, [2]string{"deleted-phantom", fmt.Sprintf("a 'deleted' event was emitted for %s, which was never announced as stored: %s", in.id, res.Outcome)})
				return res
			}
		}
		if finalOK {
			for id := range final {
				if !seenEv["stored"+id] {
					res.Probs = append(res.Probs, [2]string{"stored-missing", fmt.Sprintf("message %s is listed in its mailbox but no 'stored' event was ever emitted for it: %s", id, res.Outcome)})
					return res
				}
			}
			for _, in := range invs {
				if in.kind != "stored" {
					continue
				}
				switch {
				case !final[in.id] && !seenEv["deleted"+in.id]:
					res.Probs = append(res.Probs, [2]string{"deleted-missing", fmt.Sprintf("message #%d (%s) was announced as stored and is no longer in its mailbox, but no 'deleted' event was emitted for it: %s", ord[in.id], in.id, res.Outcome)})
					return res
				case final[in.id] && seenEv["deleted"+in.id]:
					res.Probs = append(res.Probs, [2]string{"deleted-but-present", fmt.Sprintf("message #%d (%s) is still in its mailbox although a 'deleted' event was emitted for it: %s", ord[in.id], in.id, res.Outcome)})
					return res
				}
			}
		}
		last := 0
		for _, in := range invs {
			if in.kind == "stored" {
				if sp.Racing && racing[in.id] {
					continue
				}
				if ord[in.id] < last {
					res.Probs = append(res.Probs, [2]string{"stored-out-of-order", "stored events of one mailbox did not arrive in delivery order: " + res.Outcome})
					return res
				}
				last = ord[in.id]
			}
		}
		return res
	}
	b := sp.Bound[0]
	if c.Thorough() {
		b = sp.Bound[1]
	}
	return schedScenario{ID: sp.ID, Bound: b, Run: run, Params: sp.Store.String()}
}

func c16OrdRun(c *fw.Ctx) {
	// a monitor that joins the hub while events flow is a listener like the others: history first,
	// then every later event once, in order, one call at a time (the scenario of C15's join clause)
	c.Share(4, func() { exploreSched(c, c15JoinScenario(c)) })
	// the fault scenarios are short (tens of schedules each): they go first, so that the shares of
	// the long two-client scenarios are what they were
	var specs, faults []c16OrdSpec
	for _, sp := range c16OrdSpecs() {
		if sp.FaultAt > 0 {
			faults = append(faults, sp)
		} else {
			specs = append(specs, sp)
		}
	}
	for i, sp := range faults {
		c.Share(len(faults)+len(specs)-i, func() { exploreSched(c, c16OrdScenario(c, sp)) })
	}
	for i, sp := range specs {
		c.Share(len(specs)-i, func() { exploreSched(c, c16OrdScenario(c, sp)) })
	}
}

func c16OrdReplay(c *fw.Ctx, raw json.RawMessage) {
	var cas schedCase
	_ = json.Unmarshal(raw, &cas)
	if sc := c15JoinScenario(c); sc.ID == cas.Scenario {
		replaySched(c, sc, raw)
		return
	}
	for _, sp := range c16OrdSpecs() {
		if sp.ID == cas.Scenario {
			replaySched(c, c16OrdScenario(c, sp), raw)
			return
		}
	}
	c.T.Fatalf("VERIF-INFRA unknown scenario %q", cas.Scenario)
}

func init() {
	fw.Register(&fw.Body{ID: "C16", Part: "order", Run: c16OrdRun, ReplayCase: c16OrdReplay})
}
