package checks

import (
	"bufio"
	"encoding/json"
	"fmt"
	"net"
	"os"
	"os/exec"
	"path/filepath"
	"strings"
	"sync"
	"syscall"
	"time"

	"github.com/inbucket/inbucket/v3/pkg/config"
	"github.com/inbucket/inbucket/v3/pkg/extension"
	"github.com/inbucket/inbucket/v3/pkg/storage/file"

	"verif/fw"
	"verif/sys"
)

// C19, process clause: cmd/inbucket/main.go itself - the signal handling, the order of the drain
// calls and the exit - is only reachable in a real process.  The real binary is built from the
// working tree and started on free loopback ports with a file store in a scratch directory; a
// session is brought to the middle of its dialogue, shutdown is requested with a real signal
// (SIGTERM or SIGINT, once or twice - an impatient operator, a supervisor that repeats itself),
// and the session finishes: the message is acknowledged and, after the process has exited with
// status 0, present in the store directory / the POP3 deletion has been applied.  These are a
// handful of directed runs under the operating system's scheduler, not an exploration; every
// wait has a limit of a minute or more and only decides "the process is stuck".

type c19ProcCase struct {
	Proto   string `json:"proto"`   // smtp | pop3 | none
	Signal  string `json:"signal"`  // TERM | INT
	Repeats int    `json:"repeats"` // how many times the signal is sent
}

var (
	c19BinOnce sync.Once
	c19BinPath string
	c19BinErr  string
)

func c19BuildBinary() (string, string) {
	c19BinOnce.Do(func() {
		repo := os.Getenv("VERIF_REPO")
		if repo == "" {
			repo = "/repo"
		}
		c19BinPath = filepath.Join(sys.FreshDir(), "inbucket")
		cmd := exec.Command("go", "build", "-o", c19BinPath, "./cmd/inbucket")
		cmd.Dir = repo
		if out, err := cmd.CombinedOutput(); err != nil {
			c19BinErr = fmt.Sprintf("go build ./cmd/inbucket: %v\n%s", err, out)
		}
	})
	return c19BinPath, c19BinErr
}

func c19FreePorts(n int) []string {
	var ls []net.Listener
	var out []string
	for i := 0; i < n; i++ {
		l, err := net.Listen("tcp4", "127.0.0.1:0")
		if err != nil {
			panic("VERIF-INFRA no free port: " + err.Error())
		}
		ls = append(ls, l)
		out = append(out, l.Addr().String())
	}
	for _, l := range ls {
		_ = l.Close()
	}
	return out
}

func c19ProcExec(c *fw.Ctx, cas c19ProcCase) {
	bin, berr := c19BuildBinary()
	if berr != "" {
		c.T.Fatalf("VERIF-INFRA %s", berr)
	}
	var log []string
	fail := func(key, detail string) {
		c.Violate("proc|"+key, detail+"\n  "+strings.Join(log, "\n  "), cas)
	}
	dir := sys.FreshDir()
	// one message for the POP3 client to delete
	{
		st, err := file.New(config.Storage{Type: "file", Params: map[string]string{"path": dir}, RetentionPeriod: 0}, extension.NewHost())
		if err != nil {
			c.T.Fatalf("VERIF-INFRA file.New: %v", err)
		}
		if _, err := st.AddMessage(sys.Delivery("u", "f@x.test", []string{"u@x.test"}, "old", "Subject: old\r\n\r\nold\r\n", time.Now())); err != nil {
			c.T.Fatalf("VERIF-INFRA AddMessage: %v", err)
		}
	}
	ports := c19FreePorts(3)
	cmd := exec.Command(bin)
	cmd.Env = append(os.Environ(),
		"INBUCKET_SMTP_ADDR="+ports[0], "INBUCKET_POP3_ADDR="+ports[1], "INBUCKET_WEB_ADDR="+ports[2],
		"INBUCKET_STORAGE_TYPE=file", "INBUCKET_STORAGE_PARAMS=path:"+dir, "INBUCKET_STORAGE_RETENTIONPERIOD=0",
		"INBUCKET_WEB_UIDIR=/nonexistent", "INBUCKET_LOGLEVEL=error", "INBUCKET_LUA_PATH=/nonexistent.lua")
	cmd.Dir = dir
	if err := cmd.Start(); err != nil {
		c.T.Fatalf("VERIF-INFRA start: %v", err)
	}
	exited := make(chan error, 1)
	go func() { exited <- cmd.Wait() }()
	defer func() {
		_ = cmd.Process.Kill()
		select {
		case <-exited:
		case <-time.After(10 * time.Second):
		}
	}()
	dial := func(addr string) (net.Conn, error) {
		var conn net.Conn
		var err error
		for i := 0; i < 600; i++ { // up to a minute for the daemon to come up
			conn, err = net.DialTimeout("tcp4", addr, 2*time.Second)
			if err == nil {
				return conn, nil
			}
			select {
			case e := <-exited:
				exited <- e
				return nil, fmt.Errorf("the daemon exited during start-up: %v", e)
			default:
			}
			time.Sleep(100 * time.Millisecond)
		}
		return nil, err
	}
	var conn net.Conn
	var rd *bufio.Reader
	say := func(line string) (string, bool) {
		log = append(log, "C: "+strings.SplitN(line, "\r\n", 2)[0])
		_ = conn.SetDeadline(time.Now().Add(90 * time.Second))
		if _, err := fmt.Fprintf(conn, "%s\r\n", line); err != nil {
			log = append(log, "   write failed: "+err.Error())
			return "", false
		}
		l, err := rd.ReadString('\n')
		if err != nil {
			log = append(log, "   no reply: "+err.Error())
			return "", false
		}
		log = append(log, "S: "+strings.TrimSpace(l))
		return l, true
	}
	addr := map[string]string{"smtp": ports[0], "pop3": ports[1], "none": ports[0]}[cas.Proto]
	var err error
	conn, err = dial(addr)
	if err != nil {
		c.T.Fatalf("VERIF-INFRA the daemon did not come up on %s: %v", addr, err)
	}
	defer conn.Close()
	rd = bufio.NewReader(conn)
	_ = conn.SetDeadline(time.Now().Add(90 * time.Second))
	if _, err := rd.ReadString('\n'); err != nil {
		c.T.Fatalf("VERIF-INFRA no greeting: %v", err)
	}
	var prelude, rest []string
	switch cas.Proto {
	case "smtp":
		prelude = []string{"HELO c", "MAIL FROM:<s@o.test>", "RCPT TO:<r@x.test>", "DATA"}
		rest = []string{"Subject: g\r\n\r\nbody\r\n.", "QUIT"}
	case "pop3":
		prelude = []string{"USER u", "PASS p", "DELE 1"}
		rest = []string{"QUIT"}
	default:
		prelude = []string{"QUIT"}
	}
	for _, l := range prelude {
		if _, ok := say(l); !ok {
			c.T.Fatalf("VERIF-INFRA prelude failed at %q: %v", l, log)
		}
	}
	sig := syscall.SIGTERM
	if cas.Signal == "INT" {
		sig = syscall.SIGINT
	}
	// shutdown is requested; once the listener refuses connections the request has been handled
	log = append(log, "   [signal "+cas.Signal+"]")
	_ = cmd.Process.Signal(sig)
	closed := false
	for i := 0; i < 600; i++ {
		k, err := net.DialTimeout("tcp4", ports[0], 2*time.Second)
		if err != nil {
			closed = true
			break
		}
		_ = k.Close()
		time.Sleep(100 * time.Millisecond)
	}
	if !closed {
		fail("listener-still-accepting", "a minute after the shutdown signal the SMTP listener still accepts connections")
		return
	}
	for r := 1; r < cas.Repeats; r++ {
		log = append(log, "   [signal "+cas.Signal+" again]")
		_ = cmd.Process.Signal(sig)
		time.Sleep(200 * time.Millisecond)
	}
	var last string
	for _, l := range rest {
		reply, ok := say(l)
		if !ok {
			fail("open-session-cut|"+cas.Proto, "shutdown had been requested while the session was in the middle of its dialogue; the session was cut instead of being allowed to finish")
			return
		}
		last = reply
		if cas.Proto == "smtp" && strings.HasPrefix(l, "Subject:") && !strings.HasPrefix(reply, "250") {
			fail("in-flight-mail-lost", "the message whose transfer was in progress when shutdown was requested was not acknowledged: "+strings.TrimSpace(reply))
			return
		}
	}
	_ = last
	_ = conn.Close()
	select {
	case err := <-exited:
		if err != nil {
			fail("exit-status", fmt.Sprintf("the daemon did not exit with status 0 after a clean drain: %v", err))
			return
		}
	case <-time.After(90 * time.Second):
		fail("does-not-exit", "90 s after the last session ended the daemon is still running")
		return
	}
	// what the process left behind
	st, err := file.New(config.Storage{Type: "file", Params: map[string]string{"path": dir}}, extension.NewHost())
	if err != nil {
		c.T.Fatalf("VERIF-INFRA reopen: %v", err)
	}
	switch cas.Proto {
	case "smtp":
		if ms, _ := st.GetMessages("r"); len(ms) != 1 {
			fail("in-flight-mail-lost", fmt.Sprintf("the message was acknowledged with 250 during shutdown, but after the process has exited mailbox r holds %d messages", len(ms)))
		}
	case "pop3":
		if ms, _ := st.GetMessages("u"); len(ms) != 0 {
			fail("pop3-deletes-not-applied", fmt.Sprintf("QUIT was acknowledged during shutdown, but after the process has exited mailbox u still holds %d message(s)", len(ms)))
		}
	}
}

func c19ProcCases() []c19ProcCase {
	var out []c19ProcCase
	for _, p := range []string{"smtp", "pop3", "none"} {
		for _, s := range []string{"TERM", "INT"} {
			for _, r := range []int{1, 2} {
				out = append(out, c19ProcCase{Proto: p, Signal: s, Repeats: r})
			}
		}
	}
	return out
}

func c19ProcRun(c *fw.Ctx) {
	for i, cas := range c19VanishCases() {
		if !c.Mine(100+i) || c.Expired() {
			continue
		}
		if !c.Begin(func() any { return cas }) {
			continue
		}
		c.Guard("proc", cas, func() { c19VanishExec(c, cas) })
		c.Nontrivial(1)
	}
	for i, cas := range c19ProcCases() {
		if !c.Mine(i) || c.Expired() {
			continue
		}
		if !c.Begin(func() any { return cas }) {
			continue
		}
		c.Guard("proc", cas, func() { c19ProcExec(c, cas) })
		c.Nontrivial(1)
	}
}

func c19ProcReplay(c *fw.Ctx, raw json.RawMessage) {
	var v c19VanishCase
	if err := json.Unmarshal(raw, &v); err == nil && v.Proto == "smtp-data" {
		c.Guard("proc", v, func() { c19VanishExec(c, v) })
		return
	}
	var cas c19ProcCase
	if err := json.Unmarshal(raw, &cas); err != nil {
		c.T.Fatalf("VERIF-INFRA bad case: %v", err)
	}
	c.Guard("proc", cas, func() { c19ProcExec(c, cas) })
}

func init() {
	fw.Register(&fw.Body{ID: "C19", Part: "proc", Run: c19ProcRun, ReplayCase: c19ProcReplay})
}

// Sessions whose client goes away in the middle of the message text - also of a message that is
// already larger than the limit - end, so that Drain returns: real goroutines, real time, a
// connection over net.Pipe.  "vanish": the client closes; "stall": the client stays connected
// and silent, and the idle timeout (2 s here) ends the session.  Drain is given a minute.

type c19VanishCase struct {
	Proto    string `json:"proto"` // always smtp-data
	BodySize int    `json:"body_size"`
	Limit    int    `json:"limit"`
	How      string `json:"how"` // vanish | stall
}

func c19VanishExec(c *fw.Ctx, cas c19VanishCase) {
	smtp := sys.DefaultSMTP()
	smtp.MaxMessageBytes = cas.Limit
	smtp.Timeout = 2 * time.Second
	s := sys.New(sys.Spec{Store: sys.StoreSpec{Backend: "mem"}, SMTP: smtp, NoHub: true})
	defer s.Close()
	k := s.DialSMTP()
	d := &sys.SMTPDriver{K: k}
	d.Greeting()
	for _, l := range []string{"HELO c", "MAIL FROM:<s@o.test>", "RCPT TO:<r@x.test>"} {
		d.Cmd(l)
	}
	if r := d.Cmd("DATA"); r.Code != 354 {
		c.T.Fatalf("VERIF-INFRA DATA not accepted: %s", r.String())
	}
	// message text without the terminating dot
	text := strings.Repeat("a line of the message text\r\n", cas.BodySize/28+1)
	_ = k.Write([]byte(text))
	if cas.How == "vanish" {
		k.Close()
	}
	drained := make(chan struct{})
	go func() { s.SMTP.Drain(); close(drained) }()
	select {
	case <-drained:
	case <-time.After(60 * time.Second):
		c.Violate("drain-never-returns|"+cas.How, fmt.Sprintf("an SMTP session was in the middle of the message text (%d bytes sent, limit %d) when its client %s; a minute later the session has not ended and Drain has not returned\n  %s", len(text), cas.Limit, map[string]string{"vanish": "closed the connection", "stall": "fell silent (idle timeout 2 s)"}[cas.How], strings.Join(d.Log, "\n  ")), cas)
	}
	k.Close()
}

func c19VanishCases() []c19VanishCase {
	var out []c19VanishCase
	for _, how := range []string{"vanish", "stall"} {
		for _, size := range []int{100, 3000} { // within the limit, and already over it
			out = append(out, c19VanishCase{Proto: "smtp-data", BodySize: size, Limit: 1000, How: how})
		}
	}
	return out
}
