//go:build sched

package checks

import (
	"encoding/json"
	"fmt"
	"strings"
	"sync"
	"time"

	"github.com/inbucket/inbucket/v3/pkg/vrt/vsched"

	"verif/fw"
	"verif/model"
	"verif/sys"
)

// C02 / C01 / C03, concurrent clause: two SMTP sessions deliver different messages at the same
// time.  Over every schedule within the preemption bound, each acknowledged message is stored
// exactly once in the mailbox its recipient names, and its bytes are the bytes ITS session sent
// (sessions are isolated from each other: no buffer, envelope or body is shared).

type c02SchedSpec struct {
	ID      string
	Backend string
	SameBox bool
	Bound   [2]int
}

func c02SchedSpecs() []c02SchedSpec {
	return []c02SchedSpec{
		{ID: "T1-mem-two-sessions-two-mailboxes", Backend: "mem", Bound: [2]int{3, 6}},
		{ID: "T2-file-two-sessions-one-mailbox", Backend: "file", SameBox: true, Bound: [2]int{3, 6}},
		// the mailbox does not exist yet: both deliveries create it
		{ID: "T3-mem-two-sessions-one-new-mailbox", Backend: "mem", SameBox: true, Bound: [2]int{3, 6}},
	}
}

func c02SchedScenario(c *fw.Ctx, sp c02SchedSpec) schedScenario {
	// bodies of different lengths, the longer one first: a shared buffer shows as a foreign prefix
	// with the own tail, or as wholly foreign bytes
	bodies := map[string]string{
		"a": "Subject: from A\r\n\r\nAAAAAAAAAAAAAAAAAAAAAAAAAAAAAAAAAAAAAAAAAAAAAAAA\r\n.. stuffed A\r\nlast line of A\r\n",
		"b": "Subject: from B\r\n\r\nbbbb\r\n",
	}
	run := func(cfg vsched.Config) (res schedResult) {
		var e *vsched.Exec
		var mu sync.Mutex
		acks := map[string]string{}
		var probs [][2]string
		outcome := ""
		leaked := inBubble(c.T, func() {
			var s *sys.Sys
			e = vsched.Run(cfg, func() (func(), []vsched.Thread, func()) {
				s = sys.New(sys.Spec{Store: sys.StoreSpec{Backend: sp.Backend}, SMTP: sys.DefaultSMTP(), NoHub: true})
				rcpt := func(who string) string {
					if sp.SameBox {
						return "u+" + who + "@x.test"
					}
					return who + "@x.test"
				}
				// the envelopes are built in the (unexplored) init phase: the schedules that matter are
				// those of the two DATA transfers and deliveries
				drv := map[string]*sys.SMTPDriver{}
				init := func() {
					for _, who := range []string{"a", "b"} {
						k := s.DialSMTP()
						d := &sys.SMTPDriver{K: k}
						d.Greeting()
						for _, l := range []string{"HELO " + who + ".test", "MAIL FROM:<" + who + "@o.test>", "RCPT TO:<" + rcpt(who) + ">"} {
							d.Cmd(l)
						}
						drv[who] = d
					}
				}
				client := func(who string) func() {
					return func() {
						d := drv[who]
						vsched.Point("client " + who + ": DATA")
						_, fin := d.Data(bodies[who])
						mu.Lock()
						acks[who] = fin.String()
						mu.Unlock()
						d.Cmd("QUIT")
						d.K.Close()
					}
				}
				cleanup := func() {
					safely(func() {
						mu.Lock()
						defer mu.Unlock()
						if !strings.HasPrefix(acks["a"], "250") || !strings.HasPrefix(acks["b"], "250") {
							return
						}
						exp := func(who string) sys.Expect {
							mb := who
							if sp.SameBox {
								mb = "u"
							}
							return sys.Expect{Mailbox: mb, From: who + "@o.test", To: []string{rcpt(who)}, Subject: "from " + strings.ToUpper(who), Data: bodies[who]}
						}
						var first [][2]string
						for _, order := range [][]string{{"a", "b"}, {"b", "a"}} {
							p := s.CheckDelivery(model.NewStore(0, 0), []sys.Expect{exp(order[0]), exp(order[1])}, "a", "b", "u")
							if len(p) == 0 {
								first = nil
								break
							}
							if first == nil {
								first = p
							}
						}
						for _, p := range first {
							probs = append(probs, [2]string{sp.Backend + "|concurrent|" + p[0], "two concurrent sessions, both acknowledged with 250: " + p[1]})
						}
						ms1, _ := s.StoreH.Store.GetMessages("a")
						ms2, _ := s.StoreH.Store.GetMessages("b")
						ms3, _ := s.StoreH.Store.GetMessages("u")
						outcome = fmt.Sprintf("a=%d b=%d u=%d", len(ms1), len(ms2), len(ms3))
					})
					s.Close()
				}
				return init, []vsched.Thread{{Name: "client-a", F: client("a")}, {Name: "client-b", F: client("b")}}, cleanup
			})
		})
		if leaked != "" && (e == nil || (len(e.Panics) == 0 && !e.Deadlock)) {
			res.Infra = "bubble: " + leaked
			return res
		}
		res.Exec = e
		res.Probs = append(res.Probs, stdProbs(e)...)
		res.Outcome = fmt.Sprintf("ackA=%q ackB=%q %s", acks["a"], acks["b"], outcome)
		if len(res.Probs) > 0 {
			return res
		}
		for _, who := range []string{"a", "b"} {
			if !strings.HasPrefix(acks[who], "250") {
				res.Probs = append(res.Probs, [2]string{sp.Backend + "|concurrent|not-acknowledged", fmt.Sprintf("session %s: a valid message was not acknowledged while another session was delivering: %s", who, acks[who])})
			}
		}
		res.Probs = append(res.Probs, probs...)
		return res
	}
	b := sp.Bound[0]
	if c.Thorough() {
		b = sp.Bound[1]
	}
	return schedScenario{ID: sp.ID, Bound: b, Run: run}
}

// c02LatestScenario: a client reads the source of "latest" through REST and the web UI while a
// longer message is being delivered to the same mailbox.  Whatever the schedule, each answer is
// 200 and carries exactly the bytes of ONE of the two messages - the one that was the latest at
// some moment of the request - never a mixture, a prefix or an error.
func c02LatestScenario(c *fw.Ctx, backend string) schedScenario {
	id := "T4-" + backend + "-latest-source-while-delivering"
	short := "Subject: first\r\n\r\nshort body\r\n"
	long := "Subject: second\r\n\r\n" + strings.Repeat("a much longer body line\r\n", 40)
	run := func(cfg vsched.Config) (res schedResult) {
		var e *vsched.Exec
		var mu sync.Mutex
		got := map[string]sys.HTTPResp{}
		var probs [][2]string
		leaked := inBubble(c.T, func() {
			var s *sys.Sys
			e = vsched.Run(cfg, func() (func(), []vsched.Thread, func()) {
				s = sys.New(sys.Spec{Store: sys.StoreSpec{Backend: backend}, SMTP: sys.DefaultSMTP(), Web: true, NoHub: true})
				init := func() {
					_, _ = s.StoreH.Store.AddMessage(sys.Delivery("u", "f@x.test", []string{"u@x.test"}, "first", short, time.Now()))
				}
				reader := func(name, path string) vsched.Thread {
					return vsched.Thread{Name: name, F: func() {
						vsched.Point(name + ": GET")
						r := s.HTTP("GET", path, nil)
						mu.Lock()
						got[name] = r
						mu.Unlock()
					}}
				}
				ths := []vsched.Thread{
					reader("rest-reader", "/api/v1/mailbox/u/latest/source"),
					{Name: "deliverer", F: func() {
						vsched.Point("deliverer: about to deliver")
						_, _ = s.StoreH.Store.AddMessage(sys.Delivery("u", "f@x.test", []string{"u@x.test"}, "second", long, time.Now()))
					}},
					reader("web-reader", "/serve/mailbox/u/latest/source"),
				}
				cleanup := func() {
					safely(func() {
						mu.Lock()
						defer mu.Unlock()
						for _, name := range []string{"rest-reader", "web-reader"} {
							r := got[name]
							switch {
							case r.Panic != nil:
								probs = append(probs, [2]string{"latest-source|panic", fmt.Sprintf("%s: handler failed: %v", name, r.Panic)})
							case r.Status != 200:
								probs = append(probs, [2]string{fmt.Sprintf("latest-source|status-%d", r.Status), fmt.Sprintf("%s: the source of 'latest' answered %d while a delivery was in progress (the mailbox was never empty)", name, r.Status)})
							case string(r.Body) != short && string(r.Body) != long:
								probs = append(probs, [2]string{"latest-source|neither-message", fmt.Sprintf("%s: the source of 'latest' is %d bytes %q: neither the first message (%d bytes) nor the second (%d bytes)", name, len(r.Body), clipQ(string(r.Body)), len(short), len(long))})
							}
						}
					})
					s.Close()
				}
				return init, ths, cleanup
			})
		})
		if leaked != "" && (e == nil || (len(e.Panics) == 0 && !e.Deadlock)) {
			res.Infra = "bubble: " + leaked
			return res
		}
		res.Exec = e
		res.Probs = append(res.Probs, stdProbs(e)...)
		res.Outcome = fmt.Sprintf("rest=%d bytes web=%d bytes", len(got["rest-reader"].Body), len(got["web-reader"].Body))
		if len(res.Probs) == 0 {
			res.Probs = append(res.Probs, probs...)
		}
		return res
	}
	return schedScenario{ID: id, Bound: fw.Pick(c, 2, 3), Run: run}
}

func c02SchedRun(c *fw.Ctx) {
	for _, be := range []string{"mem", "file"} {
		c.Share(4, func() { exploreSched(c, c02LatestScenario(c, be)) })
	}
	specs := c02SchedSpecs()
	for i, sp := range specs {
		c.Share(len(specs)-i, func() { exploreSched(c, c02SchedScenario(c, sp)) })
	}
}

func c02SchedReplay(c *fw.Ctx, raw json.RawMessage) {
	var cas schedCase
	_ = json.Unmarshal(raw, &cas)
	for _, be := range []string{"mem", "file"} {
		if sc := c02LatestScenario(c, be); sc.ID == cas.Scenario {
			replaySched(c, sc, raw)
			return
		}
	}
	for _, sp := range c02SchedSpecs() {
		if sp.ID == cas.Scenario {
			replaySched(c, c02SchedScenario(c, sp), raw)
			return
		}
	}
	c.T.Fatalf("VERIF-INFRA unknown scenario %q", cas.Scenario)
}

func init() {
	fw.Register(&fw.Body{ID: "C02", Part: "sched", Run: c02SchedRun, ReplayCase: c02SchedReplay})
	// the same executions decide C01's "exactly one new message per accepted recipient" for
	// transactions that overlap in time
	fw.Register(&fw.Body{ID: "C01", Part: "sched", Run: c02SchedRun, ReplayCase: c02SchedReplay})
}
