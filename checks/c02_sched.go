//go:build sched

package checks

import (
	"encoding/json"
	"fmt"
	"path/filepath"
	"strings"
	"sync"
	"sync/atomic"
	"syscall"
	"time"

	"github.com/inbucket/inbucket/v3/pkg/vrt/vsched"

	"verif/fw"
	"verif/model"
	"verif/sys"
)

// C02 / C01 / C03, concurrent clause: two SMTP sessions deliver different messages at the same
// time.  Over every schedule within the preemption bound, each acknowledged message is stored
// exactly once in the mailbox its recipient names, and its bytes are the bytes ITS session sent
// (sessions are isolated from each other: no buffer, envelope or body is shared).

type c02SchedSpec struct {
	ID      string
	Backend string
	SameBox bool
	Bound   [2]int
}

func c02SchedSpecs() []c02SchedSpec {
	return []c02SchedSpec{
		{ID: "T1-mem-two-sessions-two-mailboxes", Backend: "mem", Bound: [2]int{3, 6}},
		{ID: "T2-file-two-sessions-one-mailbox", Backend: "file", SameBox: true, Bound: [2]int{3, 6}},
		// the mailbox does not exist yet: both deliveries create it
		{ID: "T3-mem-two-sessions-one-new-mailbox", Backend: "mem", SameBox: true, Bound: [2]int{3, 6}},
	}
}

func c02SchedScenario(c *fw.Ctx, sp c02SchedSpec) schedScenario {
	// bodies of different lengths, the longer one first: a shared buffer shows as a foreign prefix
	// with the own tail, or as wholly foreign bytes
	bodies := map[string]string{
		"a": "Subject: from A\r\n\r\nAAAAAAAAAAAAAAAAAAAAAAAAAAAAAAAAAAAAAAAAAAAAAAAA\r\n.. stuffed A\r\nlast line of A\r\n",
		"b": "Subject: from B\r\n\r\nbbbb\r\n",
	}
	run := func(cfg vsched.Config) (res schedResult) {
		var e *vsched.Exec
		var mu sync.Mutex
		acks := map[string]string{}
		var probs [][2]string
		outcome := ""
		leaked := inBubble(c.T, func() {
			var s *sys.Sys
			e = vsched.Run(cfg, func() (func(), []vsched.Thread, func()) {
				s = sys.New(sys.Spec{Store: sys.StoreSpec{Backend: sp.Backend}, SMTP: sys.DefaultSMTP(), NoHub: true})
				rcpt := func(who string) string {
					if sp.SameBox {
						return "u+" + who + "@x.test"
					}
					return who + "@x.test"
				}
				// the envelopes are built in the (unexplored) init phase: the schedules that matter are
				// those of the two DATA transfers and deliveries
				drv := map[string]*sys.SMTPDriver{}
				init := func() {
					for _, who := range []string{"a", "b"} {
						k := s.DialSMTP()
						d := &sys.SMTPDriver{K: k}
						d.Greeting()
						for _, l := range []string{"HELO " + who + ".test", "MAIL FROM:<" + who + "@o.test>", "RCPT TO:<" + rcpt(who) + ">"} {
							d.Cmd(l)
						}
						drv[who] = d
					}
				}
				client := func(who string) func() {
					return func() {
						d := drv[who]
						vsched.Point("client " + who + ": DATA")
						_, fin := d.Data(bodies[who])
						mu.Lock()
						acks[who] = fin.String()
						mu.Unlock()
						d.Cmd("QUIT")
						d.K.Close()
					}
				}
				cleanup := func() {
					safely(func() {
						mu.Lock()
						defer mu.Unlock()
						if !strings.HasPrefix(acks["a"], "250") || !strings.HasPrefix(acks["b"], "250") {
							return
						}
						exp := func(who string) sys.Expect {
							mb := who
							if sp.SameBox {
								mb = "u"
							}
							return sys.Expect{Mailbox: mb, From: who + "@o.test", To: []string{rcpt(who)}, Subject: "from " + strings.ToUpper(who), Data: bodies[who]}
						}
						var first [][2]string
						for _, order := range [][]string{{"a", "b"}, {"b", "a"}} {
							p := s.CheckDelivery(model.NewStore(0, 0), []sys.Expect{exp(order[0]), exp(order[1])}, "a", "b", "u")
							if len(p) == 0 {
								first = nil
								break
							}
							if first == nil {
								first = p
							}
						}
						for _, p := range first {
							probs = append(probs, [2]string{sp.Backend + "|concurrent|" + p[0], "two concurrent sessions, both acknowledged with 250: " + p[1]})
						}
						ms1, _ := s.StoreH.Store.GetMessages("a")
						ms2, _ := s.StoreH.Store.GetMessages("b")
						ms3, _ := s.StoreH.Store.GetMessages("u")
						outcome = fmt.Sprintf("a=%d b=%d u=%d", len(ms1), len(ms2), len(ms3))
					})
					s.Close()
				}
				return init, []vsched.Thread{{Name: "client-a", F: client("a")}, {Name: "client-b", F: client("b")}}, cleanup
			})
		})
		if leaked != "" && (e == nil || (len(e.Panics) == 0 && !e.Deadlock)) {
			res.Infra = "bubble: " + leaked
			return res
		}
		res.Exec = e
		res.Probs = append(res.Probs, stdProbs(e)...)
		res.Outcome = fmt.Sprintf("ackA=%q ackB=%q %s", acks["a"], acks["b"], outcome)
		if len(res.Probs) > 0 {
			return res
		}
		for _, who := range []string{"a", "b"} {
			if !strings.HasPrefix(acks[who], "250") {
				res.Probs = append(res.Probs, [2]string{sp.Backend + "|concurrent|not-acknowledged", fmt.Sprintf("session %s: a valid message was not acknowledged while another session was delivering: %s", who, acks[who])})
			}
		}
		res.Probs = append(res.Probs, probs...)
		return res
	}
	b := sp.Bound[0]
	if c.Thorough() {
		b = sp.Bound[1]
	}
	return schedScenario{ID: sp.ID, Bound: b, Run: run}
}

// c02LatestScenario: a client reads the source of "latest" through REST and the web UI while a
// longer message is being delivered to the same mailbox.  Whatever the schedule, each answer is
// 200 and carries exactly the bytes of ONE of the two messages - the one that was the latest at
// some moment of the request - never a mixture, a prefix or an error.
func c02LatestScenario(c *fw.Ctx, backend string) schedScenario {
	id := "T4-" + backend + "-latest-source-while-delivering"
	short := "Subject: first\r\n\r\nshort body\r\n"
	long := "Subject: second\r\n\r\n" + strings.Repeat("a much longer body line\r\n", 40)
	run := func(cfg vsched.Config) (res schedResult) {
		var e *vsched.Exec
		var mu sync.Mutex
		got := map[string]sys.HTTPResp{}
		var probs [][2]string
		leaked := inBubble(c.T, func() {
			var s *sys.Sys
			e = vsched.Run(cfg, func() (func(), []vsched.Thread, func()) {
				s = sys.New(sys.Spec{Store: sys.StoreSpec{Backend: backend}, SMTP: sys.DefaultSMTP(), Web: true, NoHub: true})
				init := func() {
					_, _ = s.StoreH.Store.AddMessage(sys.Delivery("u", "f@x.test", []string{"u@x.test"}, "first", short, time.Now()))
				}
				reader := func(name, path string) vsched.Thread {
					return vsched.Thread{Name: name, F: func() {
						vsched.Point(name + ": GET")
						r := s.HTTP("GET", path, nil)
						mu.Lock()
						got[name] = r
						mu.Unlock()
					}}
				}
				ths := []vsched.Thread{
					reader("rest-reader", "/api/v1/mailbox/u/latest/source"),
					{Name: "deliverer", F: func() {
						vsched.Point("deliverer: about to deliver")
						_, _ = s.StoreH.Store.AddMessage(sys.Delivery("u", "f@x.test", []string{"u@x.test"}, "second", long, time.Now()))
					}},
					reader("web-reader", "/serve/mailbox/u/latest/source"),
				}
				cleanup := func() {
					safely(func() {
						mu.Lock()
						defer mu.Unlock()
						for _, name := range []string{"rest-reader", "web-reader"} {
							r := got[name]
							switch {
							case r.Panic != nil:
								probs = append(probs, [2]string{"latest-source|panic", fmt.Sprintf("%s: handler failed: %v", name, r.Panic)})
							case r.Status != 200:
								probs = append(probs, [2]string{fmt.Sprintf("latest-source|status-%d", r.Status), fmt.Sprintf("%s: the source of 'latest' answered %d while a delivery was in progress (the mailbox was never empty)", name, r.Status)})
							case string(r.Body) != short && string(r.Body) != long:
								probs = append(probs, [2]string{"latest-source|neither-message", fmt.Sprintf("%s: the source of 'latest' is %d bytes %q: neither the first message (%d bytes) nor the second (%d bytes)", name, len(r.Body), clipQ(string(r.Body)), len(short), len(long))})
							}
						}
					})
					s.Close()
				}
				return init, ths, cleanup
			})
		})
		if leaked != "" && (e == nil || (len(e.Panics) == 0 && !e.Deadlock)) {
			res.Infra = "bubble: " + leaked
			return res
		}
		res.Exec = e
		res.Probs = append(res.Probs, stdProbs(e)...)
		res.Outcome = fmt.Sprintf("rest=%d bytes web=%d bytes", len(got["rest-reader"].Body), len(got["web-reader"].Body))
		if len(res.Probs) == 0 {
			res.Probs = append(res.Probs, probs...)
		}
		return res
	}
	return schedScenario{ID: id, Bound: fw.Pick(c, 2, 3), Run: run}
}

// c02FaultScenario: one environment fault inside a delivery over SMTP.  Mailbox u of a file store
// holds one message; a second session has sent its envelope and now sends DATA, and the k-th
// file-system call (create, open, remove, rename) the file store makes while that DATA command is
// being served fails with EIO; the client then sends the same transaction again, fault-free.
// Whatever the final reply to the first attempt was: 250 means the message is in the mailbox with
// the bytes that were sent, anything else means the mailbox is as it was; the retry is
// acknowledged and adds exactly one copy.  k runs past the last call (fault-free control).
func c02FaultScenario(c *fw.Ctx, k int) schedScenario {
	id := fmt.Sprintf("T5-file-delivery-fs-fault-%d-then-retry", k)
	first := "Subject: first\r\n\r\nthe message that was there before\r\n"
	second := "Subject: second\r\n\r\nthe message whose delivery meets the fault\r\n"
	run := func(cfg vsched.Config) (res schedResult) {
		var e *vsched.Exec
		var mu sync.Mutex
		var armed atomic.Bool
		var calls atomic.Int64
		fired := ""
		ack1, ack2 := "", ""
		var probs [][2]string
		leaked := inBubble(c.T, func() {
			var s *sys.Sys
			e = vsched.Run(cfg, func() (func(), []vsched.Thread, func()) {
				s = sys.New(sys.Spec{Store: sys.StoreSpec{Backend: "file"}, SMTP: sys.DefaultSMTP(), NoHub: true})
				vsched.FSFault = func(op, path string) error {
					if armed.Load() && calls.Add(1) == int64(k) {
						fired = op + " " + filepath.Base(path)
						if strings.HasSuffix(path, ".raw") {
							fired = op + " <id>.raw"
						}
						return syscall.EIO
					}
					return nil
				}
				envelope := []string{"MAIL FROM:<s@o.test>", "RCPT TO:<u@x.test>"}
				var d *sys.SMTPDriver
				init := func() {
					d0 := &sys.SMTPDriver{K: s.DialSMTP()}
					d0.Greeting()
					for _, l := range append([]string{"HELO first.test"}, envelope...) {
						d0.Cmd(l)
					}
					d0.Data(first)
					d0.Cmd("QUIT")
					d0.K.Close()
					d = &sys.SMTPDriver{K: s.DialSMTP()}
					d.Greeting()
					for _, l := range append([]string{"HELO second.test"}, envelope...) {
						d.Cmd(l)
					}
				}
				client := func() {
					armed.Store(true)
					_, fin := d.Data(second)
					armed.Store(false)
					a1 := fin.String()
					for _, l := range envelope {
						d.Cmd(l)
					}
					_, fin = d.Data(second)
					mu.Lock()
					ack1, ack2 = a1, fin.String()
					mu.Unlock()
					d.Cmd("QUIT")
					d.K.Close()
				}
				cleanup := func() {
					vsched.FSFault = nil
					safely(func() {
						mu.Lock()
						defer mu.Unlock()
						exp := func(subj, data string) sys.Expect {
							return sys.Expect{Mailbox: "u", From: "s@o.test", To: []string{"u@x.test"}, Subject: subj, Data: data}
						}
						want := []sys.Expect{exp("first", first)}
						if strings.HasPrefix(ack1, "250") {
							want = append(want, exp("second", second))
						}
						if strings.HasPrefix(ack2, "250") {
							want = append(want, exp("second", second))
						}
						for _, p := range s.CheckDelivery(model.NewStore(0, 0), want, "u") {
							probs = append(probs, [2]string{"file|fs-fault|" + p[0], fmt.Sprintf("first attempt answered %q with a failing file-system call (%s), the retry %q: %s", ack1, fired, ack2, p[1])})
						}
					})
					s.Close()
				}
				return init, []vsched.Thread{{Name: "client", F: client}}, cleanup
			})
		})
		if leaked != "" && (e == nil || (len(e.Panics) == 0 && !e.Deadlock)) {
			res.Infra = "bubble: " + leaked
			return res
		}
		res.Exec = e
		res.Probs = append(res.Probs, stdProbs(e)...)
		what := "no fault: fewer calls"
		if fired != "" {
			what = "failed: " + fired
		}
		res.Outcome = fmt.Sprintf("first=%s retry=%s [%s]", clipQ(ack1), clipQ(ack2), what)
		if len(res.Probs) > 0 {
			return res
		}
		if !strings.HasPrefix(ack2, "250") {
			res.Probs = append(res.Probs, [2]string{"file|fs-fault|retry-not-acknowledged", fmt.Sprintf("the retry after the fault (%s) was answered %q", fired, ack2)})
		}
		res.Probs = append(res.Probs, probs...)
		return res
	}
	return schedScenario{ID: id, Bound: fw.Pick(c, 1, 2), Run: run}
}

const c02FaultCalls = 6

func c02SchedRun(c *fw.Ctx) {
	for k := 1; k <= c02FaultCalls; k++ {
		c.Share(c02FaultCalls+6-k, func() { exploreSched(c, c02FaultScenario(c, k)) })
	}
	for _, be := range []string{"mem", "file"} {
		c.Share(4, func() { exploreSched(c, c02LatestScenario(c, be)) })
	}
	specs := c02SchedSpecs()
	for i, sp := range specs {
		c.Share(len(specs)-i, func() { exploreSched(c, c02SchedScenario(c, sp)) })
	}
}

func c02SchedReplay(c *fw.Ctx, raw json.RawMessage) {
	var cas schedCase
	_ = json.Unmarshal(raw, &cas)
	for _, be := range []string{"mem", "file"} {
		if sc := c02LatestScenario(c, be); sc.ID == cas.Scenario {
			replaySched(c, sc, raw)
			return
		}
	}
	for _, sp := range c02SchedSpecs() {
		if sp.ID == cas.Scenario {
			replaySched(c, c02SchedScenario(c, sp), raw)
			return
		}
	}
	for k := 1; k <= c02FaultCalls; k++ {
		if sc := c02FaultScenario(c, k); sc.ID == cas.Scenario {
			replaySched(c, sc, raw)
			return
		}
	}
	c.T.Fatalf("VERIF-INFRA unknown scenario %q", cas.Scenario)
}

func init() {
	fw.Register(&fw.Body{ID: "C02", Part: "sched", Run: c02SchedRun, ReplayCase: c02SchedReplay})
	// the same executions decide C01's "exactly one new message per accepted recipient" for
	// transactions that overlap in time
	fw.Register(&fw.Body{ID: "C01", Part: "sched", Run: c02SchedRun, ReplayCase: c02SchedReplay})
}
