//go:build go1.25

package checks

import (
	"context"
	"encoding/json"
	"fmt"
	"strings"

	"github.com/inbucket/inbucket/v3/pkg/extension"
	"github.com/inbucket/inbucket/v3/pkg/extension/event"
	"github.com/inbucket/inbucket/v3/pkg/msghub"
	"github.com/inbucket/inbucket/v3/pkg/rest"

	"verif/fw"
	"verif/sys"
)

// C15 — every monitor sees every message event once, in order; none can stall the rest.
// Sequential clause: hub operation sequences against the hub model (in a synctest bubble, exact
// quiescence instead of Sync+sleep).

var c15Ops = []string{"dispatch a", "dispatch b", "delete oldest", "delete newest", "delete unknown",
	"join mock all", "join mock a", "join v1 all", "join v1 a", "join v2 all", "join v2 a", "join v2lazy all", "leave 0", "leave 1",
	// a burst that fills the queue (100 entries) of a monitor that is not reading, and that monitor catching up
	"dispatch100 a", "drainlazy",
	// delete of a message that has already left the retained history (the retention scanner
	// deleting the oldest message of the store): the history is unaffected
	"delete evicted"}

type c15Case struct {
	History int      `json:"history"`
	Seq     []int    `json:"seq"`
	Ops     []string `json:"ops,omitempty"`
}

func c15Desc(h int, seq []int) c15Case {
	cas := c15Case{History: h, Seq: append([]int{}, seq...)}
	for _, i := range seq {
		cas.Ops = append(cas.Ops, c15Ops[i])
	}
	return cas
}

// mockListener records what the hub hands it.
type mockListener struct {
	got    []string
	filter string
}

func (m *mockListener) Receive(msg event.MessageMetadata) error {
	m.got = append(m.got, "stored:"+msg.Mailbox+"/"+msg.ID)
	return nil
}
func (m *mockListener) Delete(mailbox, id string) error {
	m.got = append(m.got, "deleted:"+mailbox+"/"+id)
	return nil
}

// hubListener is a joined listener as the harness sees it.
type hubListener struct {
	kind, filter string
	mock         *mockListener
	real         rest.VerifListener
	got          []string
	want         []string // per the hub model
	left         bool
	lazy         bool // its consumer does not read: events stay buffered (at most 100)
	buffered     int  // lazy: events offered since the consumer last caught up
	overflowAt   int  // lazy: len(want) when an event was first offered with 100 unread ones queued (-1 = never)
	pendAtLeave  int
}

// offer records that the hub will offer ev to l, according to the model.
func (l *hubListener) offer(ev string) {
	if l.left {
		return
	}
	if l.lazy {
		// From the 101st unread event on the hub MAY drop this monitor (the queue holds 100 today;
		// its exact size is not part of the property): want keeps growing as if it were never
		// dropped, overflowAt remembers how much it had been offered before the first event that
		// could have overflowed.
		if l.buffered >= 100 && l.overflowAt < 0 {
			l.overflowAt = len(l.want)
		}
		l.buffered++
	}
	l.want = append(l.want, ev)
}

func (l *hubListener) drain() {
	if l.mock != nil {
		// the mock gets everything; the filter is applied by the harness (a mock stands for a
		// listener without its own filtering)
		l.got = l.got[:0]
		for _, g := range l.mock.got {
			if l.filter == "" || strings.Contains(g, ":"+l.filter+"/") {
				l.got = append(l.got, g)
			}
		}
		return
	}
	for l.real.Pending() > 0 {
		ev, ok := l.real.Recv()
		if !ok {
			return
		}
		l.got = append(l.got, ev.Kind+":"+ev.Mailbox+"/"+ev.ID)
	}
}

// hubModel is the reference model of the hub.
type hubModel struct {
	n       int
	stored  []string // "mb/id" of every dispatched message, in hub order
	deleted map[string]bool
}

func (h *hubModel) history() []string {
	var out []string
	from := len(h.stored) - h.n
	if from < 0 {
		from = 0
	}
	for _, s := range h.stored[from:] {
		if !h.deleted[s] {
			out = append(out, s)
		}
	}
	return out
}

func c15Exec(c *fw.Ctx, hlen int, seq []int) (key string, extend, nontrivial bool) {
	cas := c15Desc(hlen, seq)
	extend = true
	leaked := sys.InBubble(c.T, func() {
		ext := extension.NewHost()
		hub := msghub.New(hlen, ext)
		ctx, cancel := context.WithCancel(context.Background())
		done := make(chan struct{})
		go func() { hub.Start(ctx); close(done) }()
		defer func() { cancel(); sys.BubbleWait() }()
		mo := &hubModel{n: hlen, deleted: map[string]bool{}}
		var ls []*hubListener
		nid := map[string]int{} // per mailbox, as the memory store numbers its messages: a/1 and b/1 both exist
		match := func(l *hubListener, mb string) bool { return l.filter == "" || l.filter == mb }
		for _, oi := range seq {
			f := strings.Fields(c15Ops[oi])
			switch f[0] {
			case "dispatch", "dispatch100":
				times := 1
				if f[0] == "dispatch100" {
					times = 100
				}
				for ; times > 0; times-- {
					nid[f[1]]++
					id := fmt.Sprintf("%d", nid[f[1]])
					// as the server does it: the store's event goes through the extension host, whose
					// worker hands it to the hub
					ext.Events.AfterMessageStored.Emit(&event.MessageMetadata{Mailbox: f[1], ID: id, Subject: "s" + id})
					mo.stored = append(mo.stored, f[1]+"/"+id)
					for _, l := range ls {
						// history length 0 is documented to disable the monitor: nothing is relayed
						if match(l, f[1]) && hlen > 0 {
							l.offer("stored:" + f[1] + "/" + id)
						}
					}
				}
			case "drainlazy":
				sys.BubbleWait()
				for _, l := range ls {
					if l.lazy && !l.left {
						l.drain()
						l.buffered = 0
					}
				}
				nontrivial = true
			case "delete":
				mb, id := "a", "nope"
				h := mo.history()
				if f[1] == "oldest" && len(h) > 0 {
					p := strings.SplitN(h[0], "/", 2)
					mb, id = p[0], p[1]
				}
				if from := len(mo.stored) - mo.n; f[1] == "evicted" && from > 0 && mo.n > 0 {
					// the most recent of the messages the ring has dropped (its slot was reused last)
					for i := from - 1; i >= 0; i-- {
						if !mo.deleted[mo.stored[i]] {
							p := strings.SplitN(mo.stored[i], "/", 2)
							mb, id = p[0], p[1]
							break
						}
					}
				}
				if f[1] == "newest" && len(h) > 0 {
					p := strings.SplitN(h[len(h)-1], "/", 2)
					mb, id = p[0], p[1]
				}
				ext.Events.AfterMessageDeleted.Emit(&event.MessageMetadata{Mailbox: mb, ID: id})
				mo.deleted[mb+"/"+id] = true
				for _, l := range ls {
					if match(l, mb) && l.kind != "v1" && hlen > 0 { // the v1 socket API has no delete events
						l.offer("deleted:" + mb + "/" + id)
					}
				}
			case "join":
				l := &hubListener{kind: f[1], overflowAt: -1}
				if f[2] == "a" {
					l.filter = "a"
				}
				if f[1] == "v2lazy" {
					l.lazy = true
				}
				// the retained history is replayed first
				for _, s := range mo.history() {
					p := strings.SplitN(s, "/", 2)
					if match(l, p[0]) {
						l.offer("stored:" + s)
					}
				}
				switch f[1] {
				case "mock":
					l.mock = &mockListener{filter: l.filter}
					hub.AddListener(l.mock)
				case "v1":
					l.real = rest.VerifNewListenerV1(hub, l.filter)
				case "v2":
					l.real = rest.VerifNewListenerV2(hub, l.filter)
				case "v2lazy":
					l.real = rest.VerifNewListenerV2(hub, l.filter)
					l.lazy = true
				}
				ls = append(ls, l)
				nontrivial = true
			case "leave":
				i := int(f[1][0] - '0')
				if i < len(ls) && !ls[i].left {
					// what was queued before the leave is still the listener's to consume
					sys.BubbleWait()
					if !ls[i].lazy {
						ls[i].drain()
					}
					if ls[i].mock != nil {
						hub.RemoveListener(ls[i].mock)
					} else {
						ls[i].real.Close()
					}
					ls[i].left = true
					sys.BubbleWait()
					if ls[i].real != nil {
						ls[i].pendAtLeave = ls[i].real.Pending()
					}
					nontrivial = true
				}
			}
			sys.BubbleWait()
			for _, l := range ls {
				if !l.left && !l.lazy {
					l.drain()
				}
			}
		}
		// the hub must still be responsive
		synced := make(chan struct{})
		go func() { hub.Sync(); close(synced) }()
		sys.BubbleWait()
		select {
		case <-synced:
		default:
			c.Violate("seq|hub-stalled", "after the sequence the hub no longer processes its queue (Sync never returns)\nops: "+strings.Join(cas.Ops, "; "), cas)
			extend = false
		}
		for i, l := range ls {
			if l.left {
				// nothing may arrive after the leave was processed
				before := len(l.got)
				if l.mock != nil {
					l.drain()
				} else if n := l.real.Pending(); n > l.pendAtLeave {
					c.Violate("seq|event-after-leave|"+l.kind, fmt.Sprintf("listener %d (%s) was closed with %d events buffered, but %d are queued now: the hub still offers it events\nops: %s", i, l.kind, l.pendAtLeave, n, strings.Join(cas.Ops, "; ")), cas)
					extend = false
				}
				if len(l.got) != before {
					c.Violate("seq|event-after-leave|"+l.kind, fmt.Sprintf("listener %d (%s) received %v after it left\nops: %s", i, l.kind, l.got[before:], strings.Join(cas.Ops, "; ")), cas)
					extend = false
				}
				continue
			}
			if l.lazy {
				l.drain()
			}
			if l.overflowAt >= 0 && len(l.got) < len(l.want) {
				// a monitor the hub was entitled to drop: what it received is a gap-free prefix of
				// what was offered (its consumer stops once the listener is closed, wherever it
				// was), and nothing after the point where it was dropped
				ok := true
				for j := 0; ok && j < len(l.got); j++ {
					ok = l.got[j] == l.want[j]
				}
				if !ok {
					c.Violate("seq|dropped-listener-sequence|"+l.kind, fmt.Sprintf("listener %d (%s) was not reading while more than 100 events were offered to it; the hub may drop such a monitor, which then must have received a gap-free prefix of what was offered - it received %d events: …%v, offered …%v\nops: %s", i, l.kind, len(l.got), l.got[max(0, len(l.got)-3):], l.want[max(0, min(len(l.want), len(l.got))-3):min(len(l.want), len(l.got)+1)], strings.Join(cas.Ops, "; ")), cas)
					extend = false
				}
				continue
			}
			if strings.Join(l.got, " ") != strings.Join(l.want, " ") {
				c.Violate("seq|sequence-differs|"+l.kind, fmt.Sprintf("listener %d (%s, filter %q) received %v, the hub model says %v\nops: %s", i, l.kind, l.filter, l.got, l.want, strings.Join(cas.Ops, "; ")), cas)
				extend = false
			}
		}
		var lk []string
		for _, l := range ls {
			lk = append(lk, fmt.Sprintf("%s/%s/%v/%d/%v", l.kind, l.filter, l.left, l.buffered, l.overflowAt >= 0))
		}
		key = fmt.Sprintf("%v|%v|%v", mo.history(), len(mo.stored), lk)
		for _, l := range ls {
			if l.real != nil && !l.left {
				l.real.Close()
			}
		}
	})
	if leaked != "" {
		c.Violate("seq|goroutine-left-blocked", "a hub/listener goroutine is blocked forever after the sequence: "+leaked+"\nops: "+strings.Join(cas.Ops, "; "), cas)
		return "", false, false
	}
	return key, extend, nontrivial
}

func c15Run(c *fw.Ctx) {
	for _, hlen := range fw.Pick(c, []int{2, 1, 0}, []int{2, 1, 0, 3, 5}) {
		hlen := hlen
		e := &fw.SeqExplorer{
			C: c, NOps: len(c15Ops),
			FullDepth: fw.Pick(c, 4, 5),
			MaxDepth:  fw.Pick(c, 5, 7),
			Run: func(seq []int) (string, bool, bool) {
				var key string
				var ext, nt bool
				if c.Guard("seq", c15Desc(hlen, seq), func() { key, ext, nt = c15Exec(c, hlen, seq) }) {
					return "", false, false
				}
				return key, ext, nt
			},
			Desc: func(seq []int) any { return c15Desc(hlen, seq) },
		}
		e.Explore()
	}
}

func c15Replay(c *fw.Ctx, raw json.RawMessage) {
	var cas c15Case
	if err := json.Unmarshal(raw, &cas); err != nil {
		c.T.Fatalf("VERIF-INFRA bad case: %v", err)
	}
	c.Guard("seq", cas, func() { c15Exec(c, cas.History, cas.Seq) })
}

func init() {
	fw.Register(&fw.Body{ID: "C15", Part: "seq", Run: c15Run, ReplayCase: c15Replay})
}
