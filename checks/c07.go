package checks

import (
	"encoding/json"
	"strings"

	"verif/fw"
	"verif/sys"
)

// C07 — both storage back-ends behave as one ordered-mailbox model under any history.

// c07Spellings: ids that were never issued but read like one that was ("01" for "1", "+1"): they
// name no message.
var c07Spellings = []sop{{Kind: "add", MB: 0, Body: 0, Zero: true}, {Kind: "get", MB: 0, Ref: "0#1"}, {Kind: "seen", MB: 0, Ref: "0#1"}, {Kind: "remove", MB: 0, Ref: "0#1"}, {Kind: "remove", MB: 0, Ref: "+#2"}}

var c07Base = func() []sop {
	var o []sop
	o = append(o, sop{Kind: "add", MB: 0, Body: 0}, sop{Kind: "add", MB: 0, Body: 1}, sop{Kind: "add", MB: 1, Body: 0}, sop{Kind: "add", MB: 2, Body: 2})
	for _, r := range []string{"#1", "#2", "latest", "nope", ""} {
		o = append(o, sop{Kind: "get", MB: 0, Ref: r})
	}
	o = append(o, sop{Kind: "get", MB: 1, Ref: "latest"}, sop{Kind: "get", MB: 2, Ref: "#1"})
	for _, r := range []string{"#1", "#2", "nope", "latest"} { // "latest" is an alias for GetMessage only
		o = append(o, sop{Kind: "seen", MB: 0, Ref: r})
	}
	o = append(o, sop{Kind: "seen", MB: 1, Ref: "#1"})
	for _, r := range []string{"#1", "#2", "nope", "latest"} {
		o = append(o, sop{Kind: "remove", MB: 0, Ref: r})
	}
	o = append(o, sop{Kind: "remove", MB: 1, Ref: "#1"}, sop{Kind: "remove", MB: 2, Ref: "#1"})
	o = append(o, sop{Kind: "purge", MB: 0}, sop{Kind: "purge", MB: 1})
	o = append(o, sop{Kind: "add", MB: 0, Body: 0, Back: true})
	// a restart (file store: new process, the id counter starts again, so ids need not ascend)
	o = append(o, sop{Kind: "reopen"})
	return o
}()

// C07's own alphabet (C10 builds on c07Base)
var c07Ops = append(append([]sop{}, c07Base...), c07Spellings...)

type storeCase struct {
	Spec sys.StoreSpec `json:"spec"`
	Ops  []string      `json:"ops"`
	Seq  []int         `json:"seq"`
}

func descStoreSeq(spec sys.StoreSpec, ops []sop, seq []int) storeCase {
	c := storeCase{Spec: spec, Seq: append([]int{}, seq...)}
	for _, i := range seq {
		c.Ops = append(c.Ops, ops[i].String())
	}
	return c
}

// runStoreSeq replays seq on a fresh store, checking the oracle on the last step.
func runStoreSeq(c *fw.Ctx, spec sys.StoreSpec, ops []sop, seq []int) (key string, extend, nontrivial bool) {
	return runStoreSeqFrom(c, spec, ops, seq, len(seq)-1)
}

// runStoreSeqFrom checks the oracle on every step >= from.
func runStoreSeqFrom(c *fw.Ctx, spec sys.StoreSpec, ops []sop, seq []int, from int) (key string, extend, nontrivial bool) {
	r := newStoreRun(spec)
	defer r.close()
	cas := descStoreSeq(spec, ops, seq)
	extend = true
	panicked := c.Guard(spec.Backend, cas, func() {
		for i, oi := range seq {
			last := i >= from
			probs, changed := r.apply(ops[oi], last)
			if last {
				nontrivial = changed || nontrivial
				probs = append(probs, r.observeAll()...)
				for _, p := range probs {
					c.Violate(p[0], p[1]+"\nhistory: "+strings.Join(cas.Ops, " ; "), cas)
					extend = false
				}
			}
		}
		if extend && spec.Backend == "mem" && spec.MaxKB > 0 {
			// the size enforcer's running total is private state: probe it at the end of every
			// history (the store of a history is thrown away afterwards)
			if p := r.accountingProbe(); p != "" {
				c.Violate("mem|size-accounting-drifted", p+"\nhistory: "+strings.Join(cas.Ops, " ; "), cas)
				extend = false
			}
		}
	})
	if panicked {
		return "", false, false
	}
	return r.key(), extend, nontrivial
}

func c07Run(c *fw.Ctx) {
	for _, be := range []string{"mem", "file"} {
		spec := sys.StoreSpec{Backend: be}
		e := &fw.SeqExplorer{
			C: c, NOps: len(c07Ops),
			FullDepth: fw.Pick(c, 3, 4),
			MaxDepth:  fw.Pick(c, 4, 6),
			Run: func(seq []int) (string, bool, bool) {
				return runStoreSeq(c, spec, c07Ops, seq)
			},
			Desc: func(seq []int) any { return descStoreSeq(spec, c07Ops, seq) },
		}
		e.Explore()
	}
}

func c07Replay(c *fw.Ctx, raw json.RawMessage) {
	var cas storeCase
	if err := json.Unmarshal(raw, &cas); err != nil {
		c.T.Fatalf("VERIF-INFRA bad case: %v", err)
	}
	runStoreSeq(c, cas.Spec, c07Ops, cas.Seq)
}

func init() {
	fw.Register(&fw.Body{ID: "C07", Part: "seq", Run: c07Run, ReplayCase: c07Replay})
}

// ---------------------------------------------------------------------------------------------
// "long" clause: start from a non-initial state with 11 messages in one mailbox (ids of
// different widths, e.g. 9 → 10) and explore every pair of operations from there.

var c07LongOps = func() []sop {
	var o []sop
	o = append(o, sop{Kind: "add", MB: 0, Body: 0})
	for _, r := range []string{"#1", "#2", "#9", "#10", "#11", "latest", "oldest"} {
		o = append(o, sop{Kind: "get", MB: 0, Ref: r}, sop{Kind: "remove", MB: 0, Ref: r}, sop{Kind: "seen", MB: 0, Ref: r})
	}
	o = append(o, sop{Kind: "purge", MB: 0})
	return o
}()

func c07LongRun(c *fw.Ctx) {
	const pre = 11
	prefix := make([]int, pre) // op 0 = add(m1) eleven times
	n := 0
	for _, be := range []string{"mem", "file"} {
		spec := sys.StoreSpec{Backend: be}
		for a := -1; a < len(c07LongOps); a++ {
			for b := -1; b < len(c07LongOps); b++ {
				if a == -1 && b != -1 {
					continue
				}
				n++
				if !c.Mine(n) {
					continue
				}
				seq := append([]int{}, prefix...)
				if a >= 0 {
					seq = append(seq, a)
				}
				if b >= 0 {
					seq = append(seq, b)
				}
				if !c.Begin(func() any { return descStoreSeq(spec, c07LongOps, seq) }) {
					continue
				}
				if _, _, nt := runStoreSeqFrom(c, spec, c07LongOps, seq, pre-1); nt {
					c.Nontrivial(1)
					if c.WantSample() {
						c.Sample(descStoreSeq(spec, c07LongOps, seq))
					}
				}
			}
		}
	}
}

func c07LongReplay(c *fw.Ctx, raw json.RawMessage) {
	var cas storeCase
	if err := json.Unmarshal(raw, &cas); err != nil {
		c.T.Fatalf("VERIF-INFRA bad case: %v", err)
	}
	runStoreSeqFrom(c, cas.Spec, c07LongOps, cas.Seq, 0)
}

func init() {
	fw.Register(&fw.Body{ID: "C07", Part: "long", Run: c07LongRun, ReplayCase: c07LongReplay})
}
