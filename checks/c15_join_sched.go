//go:build sched

package checks

import (
	"context"
	"fmt"
	"strings"
	"sync"

	"github.com/inbucket/inbucket/v3/pkg/extension"
	"github.com/inbucket/inbucket/v3/pkg/extension/event"
	"github.com/inbucket/inbucket/v3/pkg/msghub"
	"github.com/inbucket/inbucket/v3/pkg/vrt/vsched"

	"verif/fw"
)

// C15, joining while events flow: a monitor joins a running hub that already remembers two
// messages, while a dispatcher stores a third and deletes the first.  The hub serialises its
// operations, so whatever the schedule the newcomer must see the history as it was at ONE point of
// that order followed by exactly the events after that point: [s1 s2 s3 d1] (joined before the
// delete) or [s2 s3] (joined after it) - never a live event before or inside the replayed history,
// never a deletion of something it is shown afterwards.

type orderMock struct {
	mu  sync.Mutex
	log []string
}

func (m *orderMock) Receive(msg event.MessageMetadata) error {
	m.mu.Lock()
	m.log = append(m.log, "s"+msg.ID)
	m.mu.Unlock()
	vsched.Point("joining listener: handled stored " + msg.ID)
	return nil
}

func (m *orderMock) Delete(mailbox, id string) error {
	m.mu.Lock()
	m.log = append(m.log, "d"+id)
	m.mu.Unlock()
	return nil
}

func c15JoinScenario(c *fw.Ctx) schedScenario {
	const id = "J1-join-while-dispatching-and-deleting"
	run := func(cfg vsched.Config) (res schedResult) {
		var e *vsched.Exec
		nl := &orderMock{}
		old := &orderMock{}
		leaked := inBubble(c.T, func() {
			e = vsched.Run(cfg, func() (func(), []vsched.Thread, func()) {
				ext := extension.NewHost()
				hub := msghub.New(5, ext)
				ctx, cancel := context.WithCancel(context.Background())
				init := func() {
					hub.AddListener(old)
					hub.Dispatch(event.MessageMetadata{Mailbox: "a", ID: "1"})
					hub.Dispatch(event.MessageMetadata{Mailbox: "a", ID: "2"})
					hub.Sync()
				}
				ths := []vsched.Thread{
					{Name: "hub", Daemon: true, Early: true, F: func() { hub.Start(ctx) }},
					{Name: "dispatcher", F: func() {
						hub.Dispatch(event.MessageMetadata{Mailbox: "a", ID: "3"})
						hub.Delete("a", "1")
						hub.Sync()
					}},
					{Name: "joiner", F: func() {
						vsched.Point("joiner: about to join")
						hub.AddListener(nl)
						hub.Sync()
					}},
				}
				return init, ths, func() { cancel() }
			})
		})
		if leaked != "" && (e == nil || (len(e.Panics) == 0 && !e.Deadlock)) {
			res.Infra = "bubble: " + leaked
			return res
		}
		res.Exec = e
		res.Probs = append(res.Probs, stdProbs(e)...)
		nl.mu.Lock()
		got := strings.Join(nl.log, " ")
		nl.mu.Unlock()
		old.mu.Lock()
		gotOld := strings.Join(old.log, " ")
		old.mu.Unlock()
		res.Outcome = fmt.Sprintf("newcomer=[%s] old=[%s]", got, gotOld)
		if len(res.Probs) > 0 {
			return res
		}
		if got != "s1 s2 s3 d1" && got != "s2 s3" {
			res.Probs = append(res.Probs, [2]string{"join-not-atomic", fmt.Sprintf("a monitor that joined while message 3 was being stored and message 1 deleted saw [%s]; with the history replayed as of one point of the hub's order it can only be [s1 s2 s3 d1] or [s2 s3]", got)})
		}
		if gotOld != "s1 s2 s3 d1" {
			res.Probs = append(res.Probs, [2]string{"old-listener-disturbed", fmt.Sprintf("the monitor that was attached all along saw [%s], want [s1 s2 s3 d1]", gotOld)})
		}
		return res
	}
	return schedScenario{ID: id, Bound: fw.Pick(c, 2, 3), Run: run}
}
