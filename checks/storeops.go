package checks

import (
	"context"
	"crypto/sha1"
	"encoding/hex"
	"errors"
	"fmt"
	"io"
	"os"
	"path/filepath"
	"reflect"
	"strconv"
	"strings"
	"testing/iotest"
	"time"

	"github.com/inbucket/inbucket/v3/pkg/config"
	"github.com/inbucket/inbucket/v3/pkg/storage"

	"verif/model"
	"verif/sys"
)

// Shared store-operation alphabet for C07 / C10 (and parts of C08).

type sop struct {
	Kind string // add get seen remove purge reopen
	MB   int    // index into storeBoxes
	Ref  string // "#1" "#2" "latest" "nope" ""
	Body int
	Size int // add: when > 0 the body is exactly Size bytes
	// add, file store, mailbox at its cap: the disk is full for the mailbox's index at the first
	// index write of the delivery - the one that commits the eviction (index.gob.tmp is a symbolic
	// link to /dev/full, which the store clears away when it gives up).  The delivery goes through.
	IdxFault bool
	Same     bool // add: the received date equals that of the other "same" deliveries (copies of one mail to several recipients share it); age order is arrival order
	Zero     bool // add: the received date is the zero time (what is written is what reads back)
	Back     bool // add: the received date lies BEFORE every earlier delivery's (dates are metadata; order is arrival order)
}

func (o sop) String() string {
	switch o.Kind {
	case "add":
		if o.IdxFault {
			return fmt.Sprintf("add(%s,b%d,index-write-fails-once)", storeBoxes[o.MB], o.Body)
		}
		if o.Size > 0 && o.Same {
			return fmt.Sprintf("add(%s,%dB,same-date)", storeBoxes[o.MB], o.Size)
		}
		if o.Size > 0 {
			return fmt.Sprintf("add(%s,%dB)", storeBoxes[o.MB], o.Size)
		}
		if o.Back {
			return fmt.Sprintf("add(%s,b%d,backdated)", storeBoxes[o.MB], o.Body)
		}
		if o.Zero {
			return fmt.Sprintf("add(%s,b%d,zero-date)", storeBoxes[o.MB], o.Body)
		}
		return fmt.Sprintf("add(%s,b%d)", storeBoxes[o.MB], o.Body)
	case "scan":
		return "retention-scan(keep newest)"
	case "addfail":
		return fmt.Sprintf("add-with-failing-source(%s)", storeBoxes[o.MB])
	case "purge":
		return fmt.Sprintf("purge(%s)", storeBoxes[o.MB])
	case "reopen":
		if o.Size > 0 {
			return fmt.Sprintf("reopen(with cap %d)", o.Size)
		}
		return "reopen"
	}
	return fmt.Sprintf("%s(%s,%s)", o.Kind, storeBoxes[o.MB], o.Ref)
}

var storeBodies = []string{
	"Subject: s\r\n\r\nshort\r\n",
	"Subject: d\r\n\r\n.\r\n..x\r\n.y\r\n\r\n",
	"",
}

// storeBoxes: m1, a name whose SHA-1 shares the first three hex digits with m1 (same lock
// bucket and level-1 directory in the file store), and a name with special characters.
var storeBoxes = func() []string {
	h := func(s string) string { x := sha1.Sum([]byte(s)); return hex.EncodeToString(x[:]) }
	want := h("m1")[:3]
	m2 := ""
	for i := 0; ; i++ {
		n := fmt.Sprintf("n%d", i)
		if h(n)[:3] == want {
			m2 = n
			break
		}
	}
	return []string{"m1", m2, "we+ird@Name/x y"}
}()

// storeRun is one live store plus its model and the ids ever returned.
type storeRun struct {
	held          []heldMsg // handles returned by earlier gets (see apply)
	h             *sys.StoreH
	mo            *model.Store
	ids           map[string][]string // mailbox -> ids ever returned, in arrival order
	clock         int64
	beforeRestart map[string]bool // mailbox/id issued before the latest reopen
	evicted       int             // evictions the model performed so far (part of the dedup key: hidden-state proxy)
	removed       int
}

func newStoreRun(spec sys.StoreSpec) *storeRun {
	return &storeRun{h: sys.NewStore(spec, nil), mo: model.NewStore(spec.Cap, int64(spec.MaxKB)*1024), ids: map[string][]string{}}
}

func (r *storeRun) close() { r.h.Close() }

// resolve maps a symbolic reference to (concrete id, model message).
func (r *storeRun) resolve(mb, ref string) (id string, m *model.Msg, kind string) {
	switch ref {
	case "latest":
		m = r.mo.Latest(mb)
		if m == nil {
			return "latest", nil, "latest-on-empty"
		}
		return "latest", m, "latest"
	case "oldest":
		if l := r.mo.Boxes[mb]; len(l) > 0 {
			return l[0].ID, l[0], "live-id"
		}
		return "none-oldest", nil, "unknown-id"
	case "newest":
		if m = r.mo.Latest(mb); m != nil {
			return m.ID, m, "live-id"
		}
		return "none-newest", nil, "unknown-id"
	case "nope":
		return "nope", nil, "unknown-id"
	case "":
		return "", nil, "empty-id"
	}
	if strings.HasPrefix(ref, "0#") || strings.HasPrefix(ref, "+#") {
		// a different spelling of an issued id: never issued itself
		k, _ := strconv.Atoi(ref[2:])
		if k > len(r.ids[mb]) {
			return "never-" + ref, nil, "unknown-id"
		}
		return ref[:1] + r.ids[mb][k-1], nil, "unknown-id"
	}
	k, _ := strconv.Atoi(ref[1:])
	if k > len(r.ids[mb]) {
		return "never-" + ref[1:], nil, "unknown-id"
	}
	id = r.ids[mb][k-1]
	m = r.mo.ByID(mb, id)
	if m == nil {
		return id, nil, "removed-id"
	}
	return id, m, "live-id"
}

// apply performs op on the implementation and the model.  When check is true the return values
// are compared with the model's and problems are returned as (key, detail) pairs.
func (r *storeRun) apply(o sop, check bool) (probs [][2]string, changed bool) {
	probs, changed = r.applyOp(o, check)
	if !check {
		return probs, changed
	}
	// messages handed out by earlier gets are values: as long as the message is in the store, what
	// the handle says (mailbox, id, content) does not change because other operations have run
	be := r.h.Spec.Backend
	for _, h := range r.held {
		if r.mo.ByID(h.mb, h.id) != h.mm {
			continue // gone (or, after a restart, gone and its id given to a later message)
		}
		o2 := sys.Observe(h.msg)
		if o2.Mailbox != h.mb || o2.ID != h.id || o2.BodyErr != "" || o2.Body != h.body {
			probs = append(probs, [2]string{be + "|held-message-changed", fmt.Sprintf("a message obtained earlier with GetMessage(%q,%q) and still in the store now reads mailbox=%q id=%q, %d bytes of content (error %q); it was mailbox=%q id=%q, %d bytes", h.mb, h.id, o2.Mailbox, o2.ID, len(o2.Body), o2.BodyErr, h.mb, h.id, len(h.body))})
			break
		}
	}
	return probs, changed
}

type heldMsg struct {
	msg    storage.Message
	mm     *model.Msg
	mb, id string
	body   string
}

func (r *storeRun) applyOp(o sop, check bool) (probs [][2]string, changed bool) {
	st := r.h.Store
	be := r.h.Spec.Backend
	mb := storeBoxes[o.MB]
	bad := func(key, detail string) { probs = append(probs, [2]string{be + "|" + key, detail}) }
	switch o.Kind {
	case "reopen":
		if o.Size > 0 {
			// the restart comes with a new configuration: a (lower) message cap
			r.h.Spec.Cap = o.Size
			r.mo.Cap = o.Size
		}
		r.h.Reopen()
		if r.beforeRestart == nil {
			r.beforeRestart = map[string]bool{}
		}
		for mbn, l := range r.ids {
			for _, id := range l {
				r.beforeRestart[mbn+"/"+id] = true
			}
		}
		return nil, true
	case "add":
		r.clock++
		date := time.Unix(1700000000+3600*r.clock, 0)
		if o.Back {
			date = time.Unix(1700000000-3600*r.clock, 0)
		}
		if o.Zero {
			date = time.Time{}
		}
		if o.Same {
			date = time.Unix(1700000000, 0)
		}
		body := storeBodies[o.Body]
		if o.Size > 0 {
			body = sizedBody(o.Size)
		}
		d := sys.Delivery(mb, "from@x.test", []string{"to1@x.test", "to2@y.test"}, fmt.Sprintf("subj %d", r.clock), body, date)
		planted := ""
		if o.IdxFault && be == "file" && r.mo.Cap > 0 && len(r.mo.Boxes[mb]) >= r.mo.Cap {
			x := sha1.Sum([]byte(mb))
			h := hex.EncodeToString(x[:])
			dir := filepath.Join(r.h.Dir, "mail", h[:3], h[:6], h)
			if fi, err := os.Stat(dir); err == nil && fi.IsDir() {
				planted = filepath.Join(dir, "index.gob.tmp")
				if err := os.Symlink("/dev/full", planted); err != nil {
					planted = ""
				}
			}
		}
		id, err := st.AddMessage(d)
		if planted != "" {
			_ = os.Remove(planted)
		}
		if err != nil {
			bad("add|error", fmt.Sprintf("AddMessage(%q) failed: %v", mb, err))
			return probs, false
		}
		issued := false
		for _, old := range r.ids[mb] {
			issued = issued || old == id
		}
		liveOld := r.mo.ByID(mb, id)
		r.ids[mb] = append(r.ids[mb], id)
		ev := r.mo.Add(&model.Msg{ID: id, Mailbox: mb, From: "from@x.test", To: []string{"to1@x.test", "to2@y.test"},
			Subject: fmt.Sprintf("subj %d", r.clock), Body: body, Size: int64(len(body)), DateNS: date.UnixNano()})
		r.evicted += len(ev)
		for _, e := range ev {
			if e == liveOld {
				liveOld = nil // this delivery evicted it first
			}
		}
		// "never reused" is demanded within one run of the process and, across restarts, for
		// every id that is still in use (the id counter restarts with the process)
		if issued && (!r.beforeRestart[mb+"/"+id] || liveOld != nil) {
			bad("add|id-reused", fmt.Sprintf("AddMessage(%q) returned id %q which was issued before in this mailbox", mb, id))
		}
		delete(r.beforeRestart, mb+"/"+id) // issued by this run of the process now
		if check {
			// the id just returned must be retrievable (unless the limits evicted it at once)
			m, err := st.GetMessage(mb, id)
			mm := r.mo.ByID(mb, id)
			switch {
			case mm == nil:
				// the model evicted it immediately (it does not fit): nothing to demand
			case err != nil || isNilMsg(m):
				bad("add|not-retrievable", fmt.Sprintf("GetMessage(%q,%q) right after AddMessage: msg=%v err=%v, but the message fits the limits", mb, id, m, err))
			default:
				if d := sys.DiffMsg(sys.Observe(m), mm, true); d != "" {
					bad("add|readback", "message just added reads back differently: "+d)
				}
			}
		}
		return probs, true
	case "addfail":
		// a delivery whose source fails half way (the environment's answer "error" to a read):
		// AddMessage must report it, and the mailbox is either unchanged or - when it was full -
		// has lost exactly what a successful delivery would have evicted.  Which of the two is
		// read off the listing; everything else is then compared as usual (also after a reopen).
		r.clock++
		date := time.Unix(1700000000+3600*r.clock, 0)
		d := sys.Delivery(mb, "from@x.test", []string{"to1@x.test"}, fmt.Sprintf("subj %d", r.clock), "", date)
		d.Reader = io.MultiReader(strings.NewReader("Subject: f\r\n\r\nhalf of the bo"), iotest.ErrReader(errors.New("source failed")))
		_, err := st.AddMessage(d)
		if err == nil {
			bad("addfail|success", fmt.Sprintf("AddMessage(%q) reported success although its source returned an error", mb))
			return probs, false
		}
		l := r.mo.Boxes[mb]
		if r.mo.Cap > 0 && len(l) >= r.mo.Cap {
			ms, _ := st.GetMessages(mb)
			if len(ms) == r.mo.Cap-1 {
				for _, m := range append([]*model.Msg{}, l[:len(l)-(r.mo.Cap-1)]...) {
					r.mo.Remove(mb, m)
					r.evicted++
				}
				return probs, true
			}
		}
		return probs, false
	case "get":
		id, mm, kind := r.resolve(mb, o.Ref)
		m, err := st.GetMessage(mb, id)
		if err == nil && !isNilMsg(m) && mm != nil && len(r.held) < 4 {
			r.held = append(r.held, heldMsg{msg: m, mm: mm, mb: mb, id: mm.ID, body: sys.Observe(m).Body})
		}
		if !check {
			return nil, false
		}
		if mm == nil {
			switch {
			case err == nil && isNilMsg(m):
				bad("get|"+kind+"|nil-nil", fmt.Sprintf("GetMessage(%q,%q) of a message that does not exist returned (nil, nil), want ErrNotExist", mb, id))
			case err == nil:
				bad("get|"+kind+"|found", fmt.Sprintf("GetMessage(%q,%q) returned message %q although none exists", mb, id, m.ID()))
			case !errors.Is(err, storage.ErrNotExist):
				bad("get|"+kind+"|other-error", fmt.Sprintf("GetMessage(%q,%q): %v, want ErrNotExist", mb, id, err))
			}
			return probs, false
		}
		if err != nil || isNilMsg(m) {
			bad("get|"+kind+"|missing", fmt.Sprintf("GetMessage(%q,%q) = (%v, %v), model has it", mb, id, m, err))
			return probs, false
		}
		if d := sys.DiffMsg(sys.Observe(m), mm, true); d != "" {
			bad("get|"+kind+"|differs", fmt.Sprintf("GetMessage(%q,%q): %s", mb, id, d))
		}
		return probs, true
	case "seen":
		id, mm, kind := r.resolve(mb, o.Ref)
		if o.Ref == "latest" {
			// "latest" is only special for GetMessage; as an id of MarkSeen it names nothing.
			mm, kind = nil, "unknown-id"
		}
		err := st.MarkSeen(mb, id)
		if mm != nil {
			mm.Seen = true
		}
		if !check {
			return nil, mm != nil
		}
		if mm == nil {
			if err == nil {
				bad("seen|"+kind+"|success", fmt.Sprintf("MarkSeen(%q,%q) of a message that does not exist reported success, want ErrNotExist", mb, id))
			} else if !errors.Is(err, storage.ErrNotExist) {
				bad("seen|"+kind+"|other-error", fmt.Sprintf("MarkSeen(%q,%q): %v, want ErrNotExist", mb, id, err))
			}
			return probs, false
		}
		if err != nil {
			bad("seen|"+kind+"|error", fmt.Sprintf("MarkSeen(%q,%q) of a live message: %v", mb, id, err))
		}
		return probs, true
	case "remove":
		id, mm, kind := r.resolve(mb, o.Ref)
		if o.Ref == "latest" {
			mm, kind = nil, "unknown-id"
		}
		err := st.RemoveMessage(mb, id)
		if mm != nil {
			r.mo.Remove(mb, mm)
			r.removed++
		}
		if !check {
			return nil, mm != nil
		}
		if mm == nil {
			if err == nil {
				bad("remove|"+kind+"|success", fmt.Sprintf("RemoveMessage(%q,%q) of a message that does not exist reported success, want ErrNotExist", mb, id))
			} else if !errors.Is(err, storage.ErrNotExist) {
				bad("remove|"+kind+"|other-error", fmt.Sprintf("RemoveMessage(%q,%q): %v, want ErrNotExist", mb, id, err))
			}
			return probs, false
		}
		if err != nil {
			bad("remove|"+kind+"|error", fmt.Sprintf("RemoveMessage(%q,%q) of a live message: %v", mb, id, err))
		}
		return probs, true
	case "scan":
		// retention scan that expires everything strictly older than the newest message of the
		// store (message dates are one hour apart; the cutoff sits 30 minutes before the newest).
		var newest int64
		for _, l := range r.mo.Boxes {
			for _, m := range l {
				if m.DateNS > newest {
					newest = m.DateNS
				}
			}
		}
		if newest == 0 {
			return nil, false
		}
		cutoff := time.Unix(0, newest).Add(-30 * time.Minute)
		rs := storage.NewRetentionScanner(config.Storage{RetentionPeriod: time.Since(cutoff), RetentionSleep: 0}, st)
		err := rs.DoScan(context.Background())
		if check && err != nil {
			bad("scan|error", fmt.Sprintf("DoScan: %v", err))
		}
		n := 0
		for mbn, l := range r.mo.Boxes {
			for _, m := range append([]*model.Msg{}, l...) {
				if m.DateNS < cutoff.UnixNano() {
					r.mo.Remove(mbn, m)
					n++
				}
			}
		}
		return probs, n > 0
	case "purge":
		n := len(r.mo.Purge(mb))
		err := st.PurgeMessages(mb)
		if check && err != nil {
			bad("purge|error", fmt.Sprintf("PurgeMessages(%q): %v", mb, err))
		}
		return probs, n > 0
	}
	panic("VERIF-INFRA unknown op " + o.Kind)
}

func isNilMsg(m storage.Message) bool {
	if m == nil {
		return true
	}
	// a typed nil pointer inside the interface
	v := reflect.ValueOf(m)
	return v.Kind() == reflect.Ptr && v.IsNil()
}

// observeAll compares every mailbox (plus one the model never saw) and the visit with the model.
func (r *storeRun) observeAll() (probs [][2]string) {
	be := r.h.Spec.Backend
	for _, mb := range append(append([]string{}, storeBoxes...), "never-used") {
		if d := sys.DiffBox(r.h.Store, r.mo, mb, true); d != "" {
			probs = append(probs, [2]string{be + "|list|differs", d})
			break
		}
	}
	if d := sys.DiffVisit(r.h.Store, r.mo, true); d != "" {
		probs = append(probs, [2]string{be + "|visit|differs", d})
	}
	return probs
}

func sizedBody(n int) string {
	const hdr = "Subject: sized\r\n\r\n"
	if n <= len(hdr) {
		return strings.Repeat("x", n)
	}
	return hdr + strings.Repeat("x", n-len(hdr))
}

// key is the dedup key of a run: the abstract state plus a proxy for implementation-hidden
// accounting state (how many messages left by eviction / removal so far).
func (r *storeRun) key() string {
	return fmt.Sprintf("%s|ev%d|rm%d|%s", r.mo.Key(), r.evicted, r.removed, r.orderSig())
}

// orderSig is a proxy for implementation-hidden state: per mailbox, whether the concrete ids and
// the dates of neighbouring messages ascend or descend in listing order.  (After a restart the
// file store's id counter starts again, so arrival order and id order can differ; a backdated
// delivery makes arrival order and date order differ.  Code that silently relies on one of these
// orders behaves differently in such states, so they must not be merged with the ordinary ones.)
func (r *storeRun) orderSig() string {
	var b strings.Builder
	for _, mb := range storeBoxes {
		l := r.mo.Boxes[mb]
		for i := 0; i+1 < len(l); i++ {
			x, y := l[i].ID, l[i+1].ID
			less := x < y
			if xi, err := strconv.Atoi(x); err == nil {
				if yi, err := strconv.Atoi(y); err == nil {
					less = xi < yi
				}
			}
			if !less {
				b.WriteByte('i')
			}
			if l[i].DateNS > l[i+1].DateNS {
				b.WriteByte('d')
			}
			b.WriteByte('.')
		}
		b.WriteByte('/')
	}
	return b.String()
}

// accountingProbe delivers, to a mailbox of its own, a message that fills a size-limited memory
// store exactly to its limit: if the enforcer's running total equals what the store holds,
// nothing else leaves the store and the message stays.
func (r *storeRun) accountingProbe() string {
	st := r.h.Store
	limit := int64(r.h.Spec.MaxKB) * 1024
	before := map[string]string{}
	var live int64
	for _, mb := range storeBoxes {
		ms, err := st.GetMessages(mb)
		if err != nil {
			return ""
		}
		var ids []string
		for _, m := range ms {
			ids = append(ids, m.ID())
			live += m.Size()
		}
		before[mb] = strings.Join(ids, ",")
	}
	room := limit - live
	if room < 40 {
		return ""
	}
	if _, err := st.AddMessage(sys.Delivery("zz-probe", "p@x.test", []string{"p@x.test"}, "probe", sizedBody(int(room)), time.Now())); err != nil {
		return "the probe delivery failed: " + err.Error()
	}
	for _, mb := range storeBoxes {
		ms, _ := st.GetMessages(mb)
		var ids []string
		for _, m := range ms {
			ids = append(ids, m.ID())
		}
		if got := strings.Join(ids, ","); got != before[mb] {
			return fmt.Sprintf("the store held %d of %d bytes; a %d-byte message (which fits exactly) was delivered to another mailbox, and mailbox %q went from [%s] to [%s]: the size enforcer's running total has drifted from what the store holds", live, limit, room, mb, before[mb], got)
		}
	}
	if ms, _ := st.GetMessages("zz-probe"); len(ms) != 1 {
		return fmt.Sprintf("the store held %d of %d bytes; a %d-byte message (which fits exactly) was evicted by its own delivery: the size enforcer's running total has drifted", live, limit, room)
	}
	return ""
}
