//go:build sched

package checks

import (
	"context"
	"encoding/json"
	"errors"
	"fmt"
	"strings"
	"sync"

	"github.com/inbucket/inbucket/v3/pkg/extension"
	"github.com/inbucket/inbucket/v3/pkg/extension/event"
	"github.com/inbucket/inbucket/v3/pkg/msghub"
	"github.com/inbucket/inbucket/v3/pkg/rest"
	"github.com/inbucket/inbucket/v3/pkg/vrt/vsched"

	"verif/fw"
)

// C15, failure schedules: real Hub.Start ∥ dispatcher ∥ healthy listeners ∥ one troublemaker,
// under every schedule within the preemption bound.

type c15Spec struct {
	ID       string
	Trouble  string // mock-error | consumer-fails | closer | double-close | never-reads
	Kind     string // v1 | v2 (real listeners)
	Dispatch int
	Bound    [2]int
}

func c15Specs() []c15Spec {
	return []c15Spec{
		{ID: "F1-mock-returns-error", Trouble: "mock-error", Dispatch: 3, Bound: [2]int{2, 3}},
		{ID: "F2-v2-consumer-fails-after-1", Trouble: "consumer-fails", Kind: "v2", Dispatch: 3, Bound: [2]int{2, 3}},
		{ID: "F3-v1-consumer-fails-after-1", Trouble: "consumer-fails", Kind: "v1", Dispatch: 3, Bound: [2]int{1, 2}},
		{ID: "F4-v2-closed-from-outside", Trouble: "closer", Kind: "v2", Dispatch: 3, Bound: [2]int{2, 3}},
		{ID: "F5-v1-double-close", Trouble: "double-close", Kind: "v1", Dispatch: 2, Bound: [2]int{2, 3}},
		{ID: "F6-v2-never-reads-101-dispatches", Trouble: "never-reads", Kind: "v2", Dispatch: 101, Bound: [2]int{0, 0}},
		{ID: "F7-v1-overflow-while-op-queue-full", Trouble: "overflow-full-opqueue", Kind: "v1", Dispatch: 100, Bound: [2]int{0, 1}},
		{ID: "F7-v2-overflow-while-op-queue-full", Trouble: "overflow-full-opqueue", Kind: "v2", Dispatch: 100, Bound: [2]int{0, 1}},
	}
}

type lockedMock struct {
	mu     sync.Mutex
	got    []string
	failAt int // return an error on the n-th Receive (1-based), 0 = never
	calls  int
	// gateAt: the n-th Receive blocks until gate is closed (holds the hub inside a broadcast)
	gateAt  int
	gate    chan struct{}
	entered chan struct{}
}

func (m *lockedMock) Receive(msg event.MessageMetadata) error {
	m.mu.Lock()
	defer m.mu.Unlock()
	m.calls++
	if m.gateAt > 0 && m.calls == m.gateAt {
		m.mu.Unlock()
		close(m.entered)
		<-m.gate
		m.mu.Lock()
	}
	if m.failAt > 0 && m.calls >= m.failAt {
		return errors.New("listener failed")
	}
	m.got = append(m.got, msg.Mailbox+"/"+msg.ID)
	return nil
}
func (m *lockedMock) Delete(mailbox, id string) error { return nil }
func (m *lockedMock) snapshot() (string, int) {
	m.mu.Lock()
	defer m.mu.Unlock()
	return strings.Join(m.got, " "), m.calls
}

func c15SchedScenario(c *fw.Ctx, sp c15Spec) schedScenario {
	run := func(cfg vsched.Config) (res schedResult) {
		var e *vsched.Exec
		var h1, h2, h3, bad *lockedMock
		var realL rest.VerifListener
		var probs [][2]string
		var pmu sync.Mutex
		addProb := func(k, d string) { pmu.Lock(); probs = append(probs, [2]string{k, d}); pmu.Unlock() }
		lateChecked := false
		leaked := inBubble(c.T, func() {
			var cancel context.CancelFunc
			e = vsched.Run(cfg, func() (func(), []vsched.Thread, func()) {
				ext := extension.NewHost()
				hub := msghub.New(5, ext)
				var ctx context.Context
				ctx, cancel = context.WithCancel(context.Background())
				h1, h2, h3 = &lockedMock{}, &lockedMock{}, &lockedMock{}
				t1done, t2done := make(chan struct{}), make(chan struct{})
				init := func() {
					// join order H1, troublemaker, H2, H3 (map iteration is pinned to slot order, so
					// the troublemaker has one healthy listener before it and two after it in every
					// broadcast)
					if sp.Trouble == "overflow-full-opqueue" {
						// h1 holds the hub inside the broadcast of event 101 until the op queue is full
						h1.gateAt, h1.gate, h1.entered = sp.Dispatch+1, make(chan struct{}), make(chan struct{})
					}
					hub.AddListener(h1)
					switch sp.Trouble {
					case "mock-error":
						bad = &lockedMock{failAt: 2}
						hub.AddListener(bad)
					default:
						if sp.Kind == "v1" {
							realL = rest.VerifNewListenerV1(hub, "")
						} else {
							realL = rest.VerifNewListenerV2(hub, "")
						}
					}
					hub.AddListener(h2)
					hub.AddListener(h3)
				}
				dispatcher := func() {
					defer close(t1done)
					for i := 1; i <= sp.Dispatch; i++ {
						hub.Dispatch(event.MessageMetadata{Mailbox: "a", ID: fmt.Sprint(i)})
					}
					if sp.Trouble == "overflow-full-opqueue" {
						// the slow listener's queue is now full (it never reads).  Event 101 parks the
						// hub inside h1; meanwhile 100 more operations fill the hub's own queue; then
						// the hub goes on to the slow listener, which overflows.
						hub.Sync()
						hub.Dispatch(event.MessageMetadata{Mailbox: "a", ID: fmt.Sprint(sp.Dispatch + 1)})
						<-h1.entered
						for i := 0; i < 100; i++ {
							hub.Dispatch(event.MessageMetadata{Mailbox: "a", ID: fmt.Sprintf("q%d", i)})
						}
						close(h1.gate)
					}
					hub.Sync()
				}
				trouble := func() {
					defer close(t2done)
					switch sp.Trouble {
					case "consumer-fails":
						// stands in for WSWriter: read one event, then the socket write fails
						if _, ok := realL.Recv(); ok {
							realL.Close()
						}
					case "closer":
						vsched.Point("closer: about to Close")
						realL.Close()
					case "double-close":
						vsched.Point("closer: about to Close")
						realL.Close()
						realL.Close()
					}
				}
				late := func() {
					<-t1done
					<-t2done
					if sp.Trouble == "never-reads" || sp.Trouble == "overflow-full-opqueue" {
						return
					}
					hub.Sync()
					before := 0
					if realL != nil {
						before = realL.Pending()
					} else {
						_, before = bad.snapshot()
					}
					hub.Dispatch(event.MessageMetadata{Mailbox: "a", ID: "late"})
					hub.Sync()
					after := 0
					if realL != nil {
						after = realL.Pending()
					} else {
						_, after = bad.snapshot()
					}
					if after > before {
						addProb("offered-after-drop|"+sp.Trouble, fmt.Sprintf("the listener had failed / been closed and the hub had processed that (Sync), yet a later event was still offered to it (%d -> %d)", before, after))
					}
					lateChecked = true
				}
				ths := []vsched.Thread{
					{Name: "hub", Daemon: true, F: func() { hub.Start(ctx) }},
					{Name: "dispatcher", F: dispatcher},
					{Name: "trouble", F: trouble},
					{Name: "late", F: late},
				}
				cleanup := func() {
					cancel()
					if realL != nil {
						// in its own goroutine: with a hub that is stuck, Close may block for ever,
						// and the scheduler's own goroutine must never block
						l := realL
						go func() {
							defer func() { _ = recover() }()
							l.Close()
						}()
					}
				}
				return init, ths, cleanup
			})
		})
		if leaked != "" && (e == nil || (len(e.Panics) == 0 && !e.Deadlock)) {
			res.Infra = "bubble: " + leaked
			return res
		}
		res.Exec = e
		res.Probs = append(res.Probs, stdProbs(e)...)
		res.Probs = append(res.Probs, probs...)
		g1, _ := h1.snapshot()
		g2, _ := h2.snapshot()
		g3, _ := h3.snapshot()
		res.Outcome = fmt.Sprintf("h1=[%s] h2=[%s] h3=[%s] late=%v deadlock=%v", g1, g2, g3, lateChecked, e.Deadlock)
		if e.Deadlock {
			// name the cause if it is the hub parked inside a listener
			for i := range res.Probs {
				if strings.HasPrefix(res.Probs[i][0], "deadlock|") {
					res.Probs[i][0] = "hub-blocked|" + sp.Trouble
					res.Probs[i][1] = "the dispatcher's Sync never returns: the hub goroutine is blocked forever inside a listener (" + res.Probs[i][1] + ")"
				}
			}
			return res
		}
		if len(e.Panics) > 0 {
			return res
		}
		var want []string
		for i := 1; i <= sp.Dispatch; i++ {
			want = append(want, fmt.Sprintf("a/%d", i))
		}
		if sp.Trouble == "overflow-full-opqueue" {
			want = append(want, fmt.Sprintf("a/%d", sp.Dispatch+1))
			for i := 0; i < 100; i++ {
				want = append(want, fmt.Sprintf("a/q%d", i))
			}
		} else if sp.Trouble != "never-reads" {
			want = append(want, "a/late")
		}
		w := strings.Join(want, " ")
		if g1 != w || g2 != w || g3 != w {
			which := "h3 (joined second after the troublemaker)"
			if g2 != w {
				which = "h2 (joined after the troublemaker)"
			}
			if g1 != w {
				which = "h1 (joined before the troublemaker)"
			}
			res.Probs = append(res.Probs, [2]string{"healthy-listener-missed-event|" + sp.Trouble, fmt.Sprintf("healthy listener %s did not receive every event exactly once: h1 [%s] / h2 [%s] / h3 [%s], expected [%s] each: a failing listener disturbed the delivery to another one", which, g1, g2, g3, w)})
		}
		return res
	}
	b := sp.Bound[0]
	if c.Thorough() {
		b = sp.Bound[1]
	}
	return schedScenario{ID: sp.ID, Bound: b, Run: run}
}

func c15SchedRun(c *fw.Ctx) {
	c.Share(9, func() { exploreSched(c, c15JoinScenario(c)) })
	specs := c15Specs()
	for i, sp := range specs {
		c.Share(len(specs)-i, func() { exploreSched(c, c15SchedScenario(c, sp)) })
	}
}

func c15SchedReplay(c *fw.Ctx, raw json.RawMessage) {
	var cas schedCase
	_ = json.Unmarshal(raw, &cas)
	if sc := c15JoinScenario(c); sc.ID == cas.Scenario {
		replaySched(c, sc, raw)
		return
	}
	for _, sp := range c15Specs() {
		if sp.ID == cas.Scenario {
			replaySched(c, c15SchedScenario(c, sp), raw)
			return
		}
	}
	c.T.Fatalf("VERIF-INFRA unknown scenario %q", cas.Scenario)
}

func init() {
	fw.Register(&fw.Body{ID: "C15", Part: "sched", Run: c15SchedRun, ReplayCase: c15SchedReplay})
}
