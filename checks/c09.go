//go:build sched

package checks

import (
	"encoding/json"
	"errors"
	"fmt"
	"sort"
	"strings"
	"sync"
	"sync/atomic"
	"syscall"
	"time"

	"github.com/anishathalye/porcupine"
	"github.com/inbucket/inbucket/v3/pkg/storage"
	"github.com/inbucket/inbucket/v3/pkg/vrt/vsched"

	"verif/fw"
	"verif/sys"
)

// C09 — stores are safe under concurrent use: linearizable, no crash/deadlock/lost mail.

type c09In struct {
	Kind, MB, ID string
}
type c09Out struct {
	ID  string
	IDs string
	Err bool
}

// c09Model is the sequential specification for porcupine; the state is a canonical string
// "mb=id,id;…|ever=mb:id,…".
type c09State struct {
	boxes map[string][]string
	ever  map[string]bool
}

func (s c09State) clone() c09State {
	n := c09State{boxes: map[string][]string{}, ever: map[string]bool{}}
	for k, v := range s.boxes {
		n.boxes[k] = append([]string{}, v...)
	}
	for k := range s.ever {
		n.ever[k] = true
	}
	return n
}

func (s c09State) key() string {
	var names []string
	for k := range s.boxes {
		names = append(names, k)
	}
	sort.Strings(names)
	var b strings.Builder
	for _, n := range names {
		fmt.Fprintf(&b, "%s=%s;", n, strings.Join(s.boxes[n], ","))
	}
	var ev []string
	for k := range s.ever {
		ev = append(ev, k)
	}
	sort.Strings(ev)
	b.WriteString("|" + strings.Join(ev, ","))
	return b.String()
}

func c09Model(initial c09State, capN int) porcupine.Model {
	return porcupine.Model{
		Init: func() interface{} { return initial },
		Step: func(st, in, out interface{}) (bool, interface{}) {
			s := st.(c09State)
			i, o := in.(c09In), out.(c09Out)
			switch i.Kind {
			case "add":
				if o.Err {
					return false, s
				}
				if s.ever[i.MB+":"+o.ID] {
					return false, s // id reused
				}
				n := s.clone()
				n.ever[i.MB+":"+o.ID] = true
				n.boxes[i.MB] = append(n.boxes[i.MB], o.ID)
				// the per-mailbox cap evicts oldest-first, atomically with the add (both stores
				// do it under the mailbox lock)
				for capN > 0 && len(n.boxes[i.MB]) > capN {
					n.boxes[i.MB] = n.boxes[i.MB][1:]
				}
				return true, n
			case "remove", "seen", "get":
				idx := -1
				id := i.ID
				l := s.boxes[i.MB]
				if i.Kind == "get" && id == "latest" {
					if len(l) == 0 {
						return o.Err, s
					}
					return !o.Err && o.ID == l[len(l)-1], s
				}
				for k, x := range l {
					if x == id {
						idx = k
					}
				}
				if idx < 0 {
					return o.Err, s
				}
				if o.Err {
					return false, s
				}
				if i.Kind == "remove" {
					n := s.clone()
					n.boxes[i.MB] = append(append([]string{}, l[:idx]...), l[idx+1:]...)
					return true, n
				}
				if i.Kind == "get" {
					return o.ID == id, s
				}
				return true, s
			case "purge":
				if o.Err {
					return false, s
				}
				n := s.clone()
				n.boxes[i.MB] = nil
				return true, n
			case "list":
				return !o.Err && o.IDs == strings.Join(s.boxes[i.MB], ","), s
			}
			return false, s
		},
		Equal: func(a, b interface{}) bool { return a.(c09State).key() == b.(c09State).key() },
		DescribeOperation: func(in, out interface{}) string {
			i, o := in.(c09In), out.(c09Out)
			return fmt.Sprintf("%s(%s,%s) -> id=%s ids=[%s] err=%v", i.Kind, i.MB, i.ID, o.ID, o.IDs, o.Err)
		},
	}
}

func idsOf(ms []storage.Message) string {
	var l []string
	for _, m := range ms {
		l = append(l, m.ID())
	}
	return strings.Join(l, ",")
}

func c09Scenario(c *fw.Ctx, sp c09Spec) schedScenario {
	run := func(cfg vsched.Config) (res schedResult) {
		probeProb := ""
		var hist []porcupine.Operation
		var hmu sync.Mutex
		var finalLists map[string]string
		var finalBytes int64
		initial := c09State{boxes: map[string][]string{}, ever: map[string]bool{}}
		var e *vsched.Exec
		leaked := inBubble(c.T, func() {
			var sh *sys.StoreH
			initIDs := map[string]string{}
			finished := make([]bool, len(sp.Threads))
			probeProb = ""
			clock := 0
			var fsArmed atomic.Bool
			doOp := func(client int, op c09Op) {
				st := sh.Store
				in := c09In{Kind: op.Kind, MB: op.MB}
				switch op.Ref {
				case "", "latest", "nope":
					in.ID = op.Ref
				default:
					in.ID = initIDs[op.Ref]
				}
				call := vsched.StepNo()
				var out c09Out
				record := func(in c09In, out c09Out, call int64) {
					hmu.Lock()
					hist = append(hist, porcupine.Operation{ClientId: client, Input: in, Call: call, Output: out, Return: vsched.StepNo()})
					hmu.Unlock()
				}
				switch op.Kind {
				case "add":
					hmu.Lock()
					clock++
					n := clock
					hmu.Unlock()
					size := op.Size
					if size == 0 {
						size = 40
					}
					id, err := st.AddMessage(sys.Delivery(op.MB, "f@x.test", []string{"t@x.test"}, fmt.Sprintf("s%d", n), sizedBody(size), time.Unix(1700000000+int64(n), 0)))
					out = c09Out{ID: id, Err: err != nil}
				case "remove":
					err := st.RemoveMessage(op.MB, in.ID)
					out = c09Out{Err: err != nil}
					if err != nil && !errors.Is(err, storage.ErrNotExist) {
						out.ID = "unexpected error: " + err.Error()
					}
				case "seen":
					out = c09Out{Err: st.MarkSeen(op.MB, in.ID) != nil}
				case "purge":
					out = c09Out{Err: st.PurgeMessages(op.MB) != nil}
				case "purge!":
					// a purge during which the next opening of an index file fails (one departure
					// from the environment's default answer); NoLin scenarios only
					fsArmed.Store(true)
					out = c09Out{Err: st.PurgeMessages(op.MB) != nil}
					fsArmed.Store(false)
				case "list":
					ms, err := st.GetMessages(op.MB)
					out = c09Out{IDs: idsOf(ms), Err: err != nil}
				case "get":
					m, err := st.GetMessage(op.MB, in.ID)
					out = c09Out{Err: err != nil || m == nil}
					if !out.Err {
						out.ID = m.ID()
					}
				case "visitremove":
					// a retention-like visitor: every callback is a read of one mailbox; the
					// visitor removes the first message it sees in mailbox op.MB.
					last := call
					err := st.VisitMailboxes(func(ms []storage.Message) bool {
						if len(ms) > 0 {
							record(c09In{Kind: "list", MB: ms[0].Mailbox()}, c09Out{IDs: idsOf(ms)}, last)
							if ms[0].Mailbox() == op.MB {
								rc := vsched.StepNo()
								rerr := st.RemoveMessage(op.MB, ms[0].ID())
								record(c09In{Kind: "remove", MB: op.MB, ID: ms[0].ID()}, c09Out{Err: rerr != nil}, rc)
							}
						}
						last = vsched.StepNo()
						return true
					})
					if err != nil {
						vsched.Log("VisitMailboxes error: " + err.Error())
						hmu.Lock()
						res.Probs = append(res.Probs, [2]string{"visit-error", "VisitMailboxes failed while other operations ran: " + err.Error()})
						hmu.Unlock()
					}
					return
				}
				record(in, out, call)
			}
			e = vsched.Run(cfg, func() (func(), []vsched.Thread, func()) {
				sh = sys.NewStore(sp.Store, nil)
				fsArmed.Store(false)
				vsched.FSFault = func(op, path string) error {
					if op == "open" && strings.HasSuffix(path, "index.gob") && fsArmed.CompareAndSwap(true, false) {
						return syscall.EIO
					}
					return nil
				}
				init := func() {
					for i, op := range sp.Init {
						clock++
						size := op.Size
						if size == 0 {
							size = 40
						}
						id, err := sh.Store.AddMessage(sys.Delivery(op.MB, "f@x.test", []string{"t@x.test"}, fmt.Sprintf("init%d", i+1), sizedBody(size), time.Unix(1700000000+int64(clock), 0)))
						if err != nil {
							panic("VERIF-INFRA init add: " + err.Error())
						}
						initIDs[fmt.Sprintf("init%d", i+1)] = id
					}
					// the initial model state is what the store shows now (limits may already
					// have evicted)
					// (only mailboxes the initialisation delivered to are read: reading another one
					// would create it in the mem store, and some scenarios need it to be fresh)
					seenBox := map[string]bool{}
					for _, op := range sp.Init {
						if seenBox[op.MB] {
							continue
						}
						seenBox[op.MB] = true
						ms, _ := sh.Store.GetMessages(op.MB)
						for _, m := range ms {
							initial.boxes[op.MB] = append(initial.boxes[op.MB], m.ID())
						}
					}
					// ids already issued (per mailbox) can never be issued again
					for i, op := range sp.Init {
						initial.ever[op.MB+":"+initIDs[fmt.Sprintf("init%d", i+1)]] = true
					}
				}
				var ths []vsched.Thread
				doneCh := make([]chan struct{}, len(sp.Threads))
				for ti, ops := range sp.Threads {
					ti, ops := ti, ops
					doneCh[ti] = make(chan struct{})
					ths = append(ths, vsched.Thread{Name: fmt.Sprintf("client%d", ti), F: func() {
						for _, op := range ops {
							doOp(ti, op)
						}
						finished[ti] = true
						close(doneCh[ti])
					}})
				}
				if sp.Store.Backend == "mem" && sp.Store.MaxKB > 0 {
					// accounting probe: when every client has finished, a message that fills the
					// store exactly to its limit is delivered to a mailbox of its own; if the size
					// enforcer's running total is right nothing else leaves the store
					ths = append(ths, vsched.Thread{Name: "accounting-probe", F: func() {
						for _, ch := range doneCh {
							<-ch
						}
						limit := int64(sp.Store.MaxKB) * 1024
						before := map[string]string{}
						var live int64
						for _, mb := range c09Boxes(sp) {
							ms, err := sh.Store.GetMessages(mb)
							if err != nil {
								return
							}
							before[mb] = idsOf(ms)
							for _, m := range ms {
								live += m.Size()
							}
						}
						room := limit - live
						if room < 40 {
							return
						}
						if _, err := sh.Store.AddMessage(sys.Delivery("zz-probe", "p@x.test", []string{"p@x.test"}, "probe", sizedBody(int(room)), time.Now())); err != nil {
							probeProb = "the probe delivery failed: " + err.Error()
							return
						}
						for _, mb := range c09Boxes(sp) {
							ms, _ := sh.Store.GetMessages(mb)
							if idsOf(ms) != before[mb] {
								probeProb = fmt.Sprintf("the store held %d of %d bytes; a %d-byte message (which fits exactly) was delivered to another mailbox, and mailbox %q went from [%s] to [%s]: the size enforcer's running total has drifted from what the store holds", live, limit, room, mb, before[mb], idsOf(ms))
								return
							}
						}
						if ms, _ := sh.Store.GetMessages("zz-probe"); len(ms) != 1 {
							probeProb = fmt.Sprintf("the store held %d of %d bytes; a %d-byte message (which fits exactly) was evicted by its own delivery: the size enforcer's running total has drifted", live, limit, room)
						}
					}})
				}
				cleanup := func() {
					all := true
					for _, f := range finished {
						all = all && f
					}
					if all {
						finalLists = map[string]string{}
						for _, mb := range c09Boxes(sp) {
							ms, err := sh.Store.GetMessages(mb)
							if err == nil {
								finalLists[mb] = idsOf(ms)
								for _, m := range ms {
									finalBytes += m.Size()
								}
							} else {
								finalLists[mb] = "ERR " + err.Error()
							}
						}
					}
					sh.Close()
				}
				return init, ths, cleanup
			})
		})
		if leaked != "" && (e == nil || (len(e.Panics) == 0 && !e.Deadlock)) {
			// goroutines left blocked although the execution itself was clean: harness problem.
			// (After a panic or deadlock of the system under test, goroutines that wait for the
			// dead one can never be released; that is a consequence, not a harness failure.)
			res.Infra = "bubble: " + leaked
			return res
		}
		res.Exec = e
		res.Probs = append(res.Probs, stdProbs(e)...)
		if len(res.Probs) > 0 || finalLists == nil {
			res.Outcome = "abnormal"
			return res
		}
		// history description
		var hs []string
		sort.SliceStable(hist, func(i, j int) bool { return hist[i].Call < hist[j].Call })
		end := int64(len(e.Trace)) + 10
		for _, op := range hist {
			if op.Return >= end {
				end = op.Return + 1
			}
		}
		for _, op := range hist {
			i, o := op.Input.(c09In), op.Output.(c09Out)
			hs = append(hs, fmt.Sprintf("[%d,%d] c%d %s(%s,%s) -> id=%q ids=[%s] err=%v", op.Call, op.Return, op.ClientId, i.Kind, i.MB, i.ID, o.ID, o.IDs, o.Err))
			if strings.HasPrefix(o.ID, "unexpected error") {
				res.Probs = append(res.Probs, [2]string{"unexpected-error|" + i.Kind, o.ID})
			}
		}
		// canonical outcome: what every operation observed (ids abstracted to counts) + final state
		var outc []string
		byClient := map[int][]string{}
		for _, op := range hist {
			i, o := op.Input.(c09In), op.Output.(c09Out)
			n := 0
			if o.IDs != "" {
				n = len(strings.Split(o.IDs, ","))
			}
			byClient[op.ClientId] = append(byClient[op.ClientId], fmt.Sprintf("%s:%d:%v", i.Kind, n, o.Err))
		}
		for ci := 0; ci < len(sp.Threads); ci++ {
			outc = append(outc, fmt.Sprintf("c%d{%s}", ci, strings.Join(byClient[ci], ",")))
		}
		for _, mb := range c09Boxes(sp) {
			outc = append(outc, mb+"="+abstractIDs(finalLists[mb], hist))
		}
		res.Outcome = strings.Join(outc, " ")
		if probeProb != "" {
			res.Probs = append(res.Probs, [2]string{"size-accounting-drifted", probeProb})
		}
		if sp.NoLin {
			if sp.LimitB > 0 && finalBytes > sp.LimitB {
				res.Probs = append(res.Probs, [2]string{"size-limit-exceeded", fmt.Sprintf("after all operations finished the store holds %d bytes, limit %d\nhistory:\n  %s", finalBytes, sp.LimitB, strings.Join(hs, "\n  "))})
			}
			// id uniqueness
			seen := map[string]bool{}
			for _, op := range hist {
				if i := op.Input.(c09In); i.Kind == "add" {
					k := i.MB + ":" + op.Output.(c09Out).ID
					if seen[k] {
						res.Probs = append(res.Probs, [2]string{"duplicate-id", "two deliveries received the same id " + k})
					}
					seen[k] = true
				}
			}
			return res
		}
		// the final listing is one more (sequential) read per mailbox
		for _, mb := range c09Boxes(sp) {
			hist = append(hist, porcupine.Operation{ClientId: len(sp.Threads), Input: c09In{Kind: "list", MB: mb}, Call: end, Output: c09Out{IDs: finalLists[mb], Err: strings.HasPrefix(finalLists[mb], "ERR ")}, Return: end + 1})
			hs = append(hs, fmt.Sprintf("[final] list(%s) -> [%s]", mb, finalLists[mb]))
		}
		if !porcupine.CheckOperations(c09Model(initial, sp.Store.Cap), hist) {
			res.Probs = append(res.Probs, [2]string{"not-linearizable", "no sequential order of the operations consistent with real time explains the results (lost update, lost mail, duplicate id or stale read)\nhistory (scheduler-step intervals):\n  " + strings.Join(hs, "\n  ")})
		}
		return res
	}
	bound := sp.Bound[0]
	if c.Thorough() {
		bound = sp.Bound[1]
	}
	return schedScenario{ID: sp.ID, Bound: bound, Run: run, Params: sp.Store.String()}
}

// abstractIDs renames concrete ids by the order in which they appear in the history.
func abstractIDs(ids string, hist []porcupine.Operation) string {
	if ids == "" {
		return "[]"
	}
	return fmt.Sprintf("[%d msgs]", len(strings.Split(ids, ",")))
}

func c09Run(c *fw.Ctx) {
	specs := c09Specs()
	for i, sp := range specs {
		c.Share(len(specs)-i+1, func() { exploreSched(c, c09Scenario(c, sp)) })
	}
	// the retention scanner as a concurrent client (C12's scan ∥ deliver ∥ remove scenarios): a
	// delivery that returned an id while the scan was running is present afterwards
	for _, sp := range c12Specs() {
		if sp.Kind == "race" {
			sc := c12SchedScenario(c, sp)
			sc.ID = "S21-retention-" + sp.ID
			c.Share(4, func() { exploreSched(c, sc) })
		}
	}
	// the full-stack scenario last, with all the time that is left
	// (the mem variant with its size enforcer has 40k+ schedules already at bound 0: thorough only)
	stack := fw.Pick(c, []string{"file"}, []string{"file", "mem"})
	for i, be := range stack {
		be := be
		c.Share(len(stack)-i, func() { exploreSched(c, c09StackScenario(c, be)) })
	}
}

func c09Replay(c *fw.Ctx, raw json.RawMessage) {
	var cas schedCase
	_ = json.Unmarshal(raw, &cas)
	for _, be := range []string{"mem", "file"} {
		if sc := c09StackScenario(c, be); sc.ID == cas.Scenario {
			replaySched(c, sc, raw)
			return
		}
	}
	for _, sp := range c12Specs() {
		if "S21-retention-"+sp.ID == cas.Scenario {
			sc := c12SchedScenario(c, sp)
			sc.ID = cas.Scenario
			replaySched(c, sc, raw)
			return
		}
	}
	for _, sp := range c09Specs() {
		if sp.ID == cas.Scenario {
			replaySched(c, c09Scenario(c, sp), raw)
			return
		}
	}
	c.T.Fatalf("VERIF-INFRA unknown scenario %q", cas.Scenario)
}

func init() {
	fw.Register(&fw.Body{ID: "C09", Part: "sched", Run: c09Run, ReplayCase: c09Replay})
}

// ---------------------------------------------------------------------------------------------
// Full-stack scenario: the concurrent clients the property names — an SMTP delivery, a REST
// delete, a POP3 session committing a deletion, with the size enforcer in the background — on
// one mailbox.  Oracle: no panic/deadlock, every protocol step answered as expected, and the
// final mailbox is exactly (initial − deleted) + delivered.

func c09StackScenario(c *fw.Ctx, backend string) schedScenario {
	id := "S20-" + backend + "-stack-smtp-rest-pop3"
	run := func(cfg vsched.Config) (res schedResult) {
		var e *vsched.Exec
		var mu sync.Mutex
		notes := map[string]string{}
		note := func(k, v string) { mu.Lock(); notes[k] = v; mu.Unlock() }
		var finalIDs []string
		var initIDs []string
		leaked := inBubble(c.T, func() {
			var s *sys.Sys
			e = vsched.Run(cfg, func() (func(), []vsched.Thread, func()) {
				spec := sys.StoreSpec{Backend: backend}
				if backend == "mem" {
					spec.MaxKB = 64
				}
				s = sys.New(sys.Spec{Store: spec, SMTP: sys.DefaultSMTP(), Web: true, NoHub: true})
				init := func() {
					for i := 0; i < 2; i++ {
						id, err := s.StoreH.Store.AddMessage(sys.Delivery("u", "f@x.test", []string{"u@x.test"}, fmt.Sprintf("init%d", i), sizedBody(60), time.Unix(1700000000+int64(i), 0)))
						if err != nil {
							panic("VERIF-INFRA init: " + err.Error())
						}
						initIDs = append(initIDs, id)
					}
				}
				smtpClient := func() {
					k := s.DialSMTP()
					d := &sys.SMTPDriver{K: k}
					d.Greeting()
					for _, l := range []string{"HELO c", "MAIL FROM:<s@o.test>", "RCPT TO:<u@x.test>"} {
						vsched.Point("smtp client: " + strings.Fields(l)[0])
						d.Cmd(l)
					}
					vsched.Point("smtp client: DATA")
					_, fin := d.Data("Subject: stack\r\n\r\nnew mail\r\n")
					note("smtp", fin.String())
					vsched.Point("smtp client: QUIT")
					d.Cmd("QUIT")
					k.Close()
				}
				restClient := func() {
					vsched.Point("rest client: DELETE first message")
					r := s.HTTP("DELETE", "/api/v1/mailbox/u/"+initIDs[0], nil)
					note("rest", fmt.Sprintf("%d panic=%v", r.Status, r.Panic))
				}
				popClient := func() {
					p := s.DialPOP3()
					line := func() string { l, _ := p.ReadLine(); return strings.TrimSpace(l) }
					line()
					var got []string
					for _, l := range []string{"USER u", "PASS p", "DELE 2", "QUIT"} {
						vsched.Point("pop3 client: " + l)
						_ = p.Send(l)
						got = append(got, line())
					}
					note("pop3", strings.Join(got, " | "))
					p.Close()
				}
				cleanup := func() {
					safely(func() {
						ms, err := s.StoreH.Store.GetMessages("u")
						if err == nil {
							for _, m := range ms {
								finalIDs = append(finalIDs, m.ID())
							}
						} else {
							finalIDs = []string{"ERR " + err.Error()}
						}
					})
					s.Close()
				}
				return init, []vsched.Thread{{Name: "smtp", F: smtpClient}, {Name: "rest", F: restClient}, {Name: "pop3", F: popClient}}, cleanup
			})
		})
		if leaked != "" && (e == nil || (len(e.Panics) == 0 && !e.Deadlock)) {
			res.Infra = "bubble: " + leaked
			return res
		}
		res.Exec = e
		res.Probs = append(res.Probs, stdProbs(e)...)
		res.Outcome = fmt.Sprintf("smtp=%q rest=%q pop3=%q final=%d", notes["smtp"], notes["rest"], notes["pop3"], len(finalIDs))
		if len(res.Probs) > 0 {
			return res
		}
		if !strings.HasPrefix(notes["smtp"], "250") {
			res.Probs = append(res.Probs, [2]string{"smtp-not-acknowledged", "the SMTP delivery was not acknowledged: " + notes["smtp"]})
		}
		if notes["rest"] != "200 panic=<nil>" {
			res.Probs = append(res.Probs, [2]string{"rest-delete-failed", "REST DELETE of an existing message answered " + notes["rest"]})
		}
		// POP3: the snapshot was taken at PASS; message number 2 of the snapshot is deleted on QUIT.
		// Whatever the snapshot was, afterwards neither init message survives only if POP3's
		// number 2 was the second init message; if the REST delete came first, number 2 is the
		// newly delivered message or does not exist.  The invariant that must always hold:
		has := map[string]bool{}
		for _, id := range finalIDs {
			has[id] = true
		}
		if has[initIDs[0]] {
			res.Probs = append(res.Probs, [2]string{"deleted-message-still-there", fmt.Sprintf("the message deleted through REST (200) is still listed at the end: %v", finalIDs)})
		}
		if len(finalIDs) > 2 {
			res.Probs = append(res.Probs, [2]string{"too-many-messages", fmt.Sprintf("2 initial − 1 deleted + 1 delivered leaves at most 2 messages, the mailbox lists %v", finalIDs)})
		}
		if strings.Contains(notes["pop3"], "+OK Deleted message 2") && strings.HasSuffix(notes["pop3"], "+OK We will process your deletes") && len(finalIDs) > 1 {
			res.Probs = append(res.Probs, [2]string{"pop3-delete-not-applied", fmt.Sprintf("POP3 marked message 2 and QUIT was accepted, REST deleted another message, yet %d messages remain: %v (pop3: %s)", len(finalIDs), finalIDs, notes["pop3"])})
		}
		if len(finalIDs) == 0 && !strings.Contains(notes["pop3"], "+OK Deleted message 2") {
			res.Probs = append(res.Probs, [2]string{"mail-lost", fmt.Sprintf("the mailbox is empty although only one message was deleted (pop3: %s)", notes["pop3"])})
		}
		return res
	}
	return schedScenario{ID: id, Bound: fw.Pick(c, 0, 1), Run: run}
}
