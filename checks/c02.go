//go:build go1.25

package checks

import (
	"encoding/json"
	"fmt"
	"strconv"
	"strings"

	"verif/fw"
	"verif/sys"
)

// C02 — message content survives byte-for-byte from SMTP DATA to every read interface.

// LONG = one 70000-byte line; LONGDOTS = 9000 dots (a dot at every offset of a long line, in
// particular at every 4096-byte buffer boundary); P4096 = exactly 4096 bytes without a line end
// (what follows it starts at a buffer boundary but NOT at a line start).
var c02Tokens = []string{"a", ".", "..", ".a", "\r\n", "\n", "\r", "\x00", "\xff\xfe", " ", "%d%%", "LONG", "LONGDOTS", "P4096"}

var c02Big = map[string]string{"LONG": strings.Repeat("L", 70000), "LONGDOTS": strings.Repeat(".", 9000), "P4096": strings.Repeat("p", 4096)}

// c02Lines: whole lines that look like something a mail server might want to tidy up - trace and
// envelope header fields, mbox "From " lines, folded continuations - placed in the header block
// and in the body: they are content like any other.
var c02Lines = []string{"Return-Path: <r@o.test>\r\n", "Received: from x by y; Thu, 1 Jan 1970 00:00:00 +0000\r\n", "From me Thu Jan  1 00:00:00 1970\r\n",
	">From me\r\n", "X-Spam-Flag: YES\r\n", " folded continuation\r\n", "\r\n", "plain text line\r\n", "return-path: lower case\r\n", "Bcc: hidden@o.test\r\n"}

const c02Header = "From: s@o.test\r\nTo: c02@x.test\r\nSubject: c02\r\n\r\n"

type c02Case struct {
	Backend string `json:"backend"`
	Header  bool   `json:"header"`
	Tokens  []int  `json:"tokens,omitempty"`
	Lines   []int  `json:"lines,omitempty"`  // indices into c02Lines
	Ladder  int    `json:"ladder,omitempty"` // size-ladder case: body of this many bytes
	FinalNL bool   `json:"final_nl,omitempty"`
	Eager   bool   `json:"eager,omitempty"` // DATA, the message and the terminator leave in one write
	MaxKB   int    `json:"maxkb,omitempty"` // memory store with a size limit: a message is kept whole or not at all
	Show    string `json:"show,omitempty"`
}

func (cas c02Case) body() string {
	var b strings.Builder
	if cas.Header {
		b.WriteString(c02Header)
	}
	if cas.Ladder > 0 || (cas.Tokens == nil && cas.Show == "ladder") {
		n := cas.Ladder
		col := 0
		for i := 0; i < n; i++ {
			if col == 70 && i < n-1 {
				b.WriteString("\r\n")
				i++
				col = 0
				continue
			}
			b.WriteByte("abcdefghij"[i%10])
			col++
		}
		if cas.FinalNL {
			b.WriteString("\r\n")
		}
		return b.String()
	}
	for _, l := range cas.Lines {
		b.WriteString(c02Lines[l])
	}
	for _, t := range cas.Tokens {
		if big, ok := c02Big[c02Tokens[t]]; ok {
			b.WriteString(big)
		} else {
			b.WriteString(c02Tokens[t])
		}
	}
	return b.String()
}

func c02Exec(c *fw.Ctx, cas c02Case) (stored bool) {
	leaked := sys.InBubble(c.T, func() { stored = c02ExecB(c, cas) })
	if leaked != "" {
		c.Violate(cas.Backend+"|wedge|goroutine-left-blocked", "a session goroutine is still blocked after the client closed: "+leaked, cas)
	}
	return stored
}

func c02ExecB(c *fw.Ctx, cas c02Case) (stored bool) {
	s := sys.New(sys.Spec{Store: sys.StoreSpec{Backend: cas.Backend, MaxKB: cas.MaxKB}, SMTP: sys.DefaultSMTP(), Web: true, NoHub: true})
	defer s.Close()
	body := cas.body()
	var log []string
	fail := func(key, detail string) {
		c.Violate(cas.Backend+"|"+key, fmt.Sprintf("%s\nbody (%d bytes): %s\n  %s", detail, len(body), clipQ(body), strings.Join(log, "\n  ")), cas)
	}
	k := s.DialSMTP()
	k.Bubble = true
	d := &sys.SMTPDriver{K: k}
	d.Greeting()
	d.Cmd("HELO c.test")
	d.Cmd("MAIL FROM:<s@o.test>")
	d.Cmd("RCPT TO:<c02@x.test>")
	if cas.MaxKB == 0 {
		d.Cmd("RCPT TO:<c02b@x.test>") // a second mailbox gets its own copy of the same bytes
	}
	var fin sys.Reply
	if cas.Eager {
		_, fin = d.DataEager(body)
	} else {
		_, fin = d.Data(body)
	}
	if fin.OK {
		d.Cmd("QUIT")
	}
	k.Close()
	log = d.Log
	if !k.Ended() {
		fail("wedge|session-does-not-end", "the SMTP session goroutine never returned after the client closed")
		return
	}
	if !fin.OK {
		fail("smtp|no-reply", "no reply after the terminating dot: "+fin.Why)
		return
	}
	if fin.Class() != 2 {
		c.Count("refused_by_server", 1)
		c.SetAdd("refusal_replies", fin.String())
		return
	}
	ms, err := s.StoreH.Store.GetMessages("c02")
	if cas.MaxKB > 0 && err == nil && len(ms) == 0 && len(sys.Transmitted(body))+400 > cas.MaxKB*1024 {
		// larger than the whole store (the trace headers add at most 400 bytes): evicted at once
		c.Count("evicted_by_the_size_limit", 1)
		return
	}
	if err != nil || len(ms) != 1 {
		fail("store|count", fmt.Sprintf("after one acknowledged delivery the mailbox lists %d messages (err=%v)", len(ms), err))
		return
	}
	stored = true
	o := sys.Observe(ms[0])
	want := sys.NormLE(sys.Transmitted(body))
	checkSrc := func(iface, src string) bool {
		rp, rc, rest, ok := sys.SplitTrace(src)
		if !ok {
			fail(iface+"|trace", fmt.Sprintf("%s source does not start with Return-Path and Received header fields: %s", iface, clipQ(src)))
			return false
		}
		_ = rp
		_ = rc
		if got := sys.NormLE(rest); got != want {
			fail(iface+"|content|"+c02Class(sys.Transmitted(body), got, want), fmt.Sprintf("%s returns different content: %s (%d bytes after the trace headers), transmitted %s (%d bytes), first difference at %d", iface, clipQ(got), len(got), clipQ(want), len(want), firstDiff(got, want)))
			return false
		}
		return true
	}
	if o.BodyErr != "" {
		fail("store|unreadable", "Source(): "+o.BodyErr)
		return
	}
	if o.Size != int64(len(o.Body)) {
		fail("store|size", fmt.Sprintf("Size()=%d but Source() has %d bytes", o.Size, len(o.Body)))
	}
	if !checkSrc("store", o.Body) {
		return
	}
	if cas.MaxKB > 0 {
		// single recipient in this configuration
	} else if ms2, err := s.StoreH.Store.GetMessages("c02b"); err != nil || len(ms2) != 1 {
		fail("store2|count", fmt.Sprintf("the second recipient's mailbox lists %d messages after one acknowledged delivery (err=%v)", len(ms2), err))
		return
	} else if o2 := sys.Observe(ms2[0]); o2.BodyErr != "" {
		fail("store2|unreadable", "second recipient's copy: Source(): "+o2.BodyErr)
		return
	} else if !checkSrc("store2", o2.Body) {
		return
	}
	id := o.ID
	// REST
	r := s.HTTP("GET", "/api/v1/mailbox/c02/"+id+"/source", nil)
	if r.Status != 200 {
		fail("rest|status", fmt.Sprintf("REST source answered %d", r.Status))
	} else if string(r.Body) != o.Body {
		if checkSrc("rest", string(r.Body)) {
			c.Count("rest_differs_only_in_line_endings", 1)
		}
	}
	rl := s.HTTP("GET", "/api/v1/mailbox/c02", nil)
	var hdrs []map[string]any
	if json.Unmarshal(rl.Body, &hdrs) != nil || len(hdrs) != 1 {
		fail("rest|list", fmt.Sprintf("REST list answered %d %s", rl.Status, clipQ(string(rl.Body))))
	} else if sz, _ := hdrs[0]["size"].(float64); int64(sz) != int64(len(o.Body)) {
		fail("rest|size", fmt.Sprintf("REST reports size %v, the stored source has %d bytes", hdrs[0]["size"], len(o.Body)))
	}
	// web UI
	w := s.HTTP("GET", "/serve/mailbox/c02/"+id+"/source", nil)
	if w.Status != 200 {
		fail("web|status", fmt.Sprintf("web UI source answered %d", w.Status))
	} else if string(w.Body) != o.Body {
		if checkSrc("web", string(w.Body)) {
			c.Count("web_differs_only_in_line_endings", 1)
		}
	}
	// POP3
	p := s.DialPOP3()
	p.Bubble = true
	line := func() string { l, _ := p.ReadLine(); return l }
	line()
	_ = p.Send("USER c02")
	line()
	_ = p.Send("PASS x")
	line()
	_ = p.Send("STAT")
	stat := line()
	if want := fmt.Sprintf("+OK 1 %d\r\n", len(o.Body)); stat != want {
		fail("pop3|stat", fmt.Sprintf("STAT answered %q, want %q", stat, want))
	}
	_ = p.Send("LIST 1")
	if l, want := line(), fmt.Sprintf("+OK 1 %d\r\n", len(o.Body)); l != want {
		fail("pop3|list", fmt.Sprintf("LIST 1 answered %q, want %q", l, want))
	}
	_ = p.Send("RETR 1")
	st := line()
	if !strings.HasPrefix(st, "+OK "+strconv.Itoa(len(o.Body))+" ") {
		fail("pop3|retr-status", fmt.Sprintf("RETR answered %q; the stored source has %d bytes", st, len(o.Body)))
	}
	var lines []string
	terminated := false
	for {
		l, ok := p.ReadLine()
		if !ok {
			break
		}
		if l == ".\r\n" {
			terminated = true
			break
		}
		lines = append(lines, l)
	}
	_ = p.Send("QUIT")
	extra := ""
	for {
		l, ok := p.ReadLine()
		if !ok {
			break
		}
		extra += l
	}
	p.Close()
	if !p.Ended() {
		fail("wedge|pop3-session-does-not-end", "the POP3 session goroutine never returned after the client closed")
	}
	if !terminated {
		fail("pop3|unterminated", "RETR response was not terminated by a '.' line")
	} else {
		if !strings.HasPrefix(extra, "+OK") {
			fail("pop3|after-retr", fmt.Sprintf("after the RETR response the server sent %q (expected only the reply to QUIT)", clipQ(extra)))
		}
		checkSrc("pop3", unstuffC02(lines))
	}
	return
}

func unstuffC02(lines []string) string {
	var b strings.Builder
	for _, l := range lines {
		if strings.HasPrefix(l, ".") {
			l = l[1:]
		}
		b.WriteString(l)
	}
	return b.String()
}

func firstDiff(a, b string) int {
	n := min(len(a), len(b))
	for i := 0; i < n; i++ {
		if a[i] != b[i] {
			return i
		}
	}
	return n
}

func clipQ(s string) string {
	if len(s) > 90 {
		return fmt.Sprintf("%q…%q", s[:50], s[len(s)-30:])
	}
	return fmt.Sprintf("%q", s)
}

// c02Class names the class of a content difference (part of the violation key, so that one
// known class never masks another).
func c02Class(wire, got, want string) string {
	// net/textproto's dot reader does not treat the position after an *empty line ended by a bare
	// LF* as a line start: a stuffed dot there is kept, and a terminator there is not seen.
	emptyLFLineThenDot := strings.HasPrefix(wire, "\n.") || strings.Contains(wire, "\n\n.")
	switch {
	case emptyLFLineThenDot && len(got) > len(want) && strings.Count(got, ".") > strings.Count(want, "."):
		return "extra-dot-after-empty-bare-LF-line"
	case len(got) < len(want) && strings.HasPrefix(want, got):
		return "truncated"
	case len(got) < len(want):
		return "bytes-lost"
	case len(got) > len(want):
		return "bytes-added"
	}
	return "bytes-changed"
}

func c02Run(c *fw.Ctx) {
	maxTok := fw.Pick(c, 4, 6)
	n := 0
	for _, be := range []string{"mem", "file"} {
		run := func(cas c02Case) {
			n++
			if !c.Mine(n) || c.Expired() {
				return
			}
			show := cas
			if !c.Begin(func() any { return show }) {
				return
			}
			var st bool
			c.Guard(be, cas, func() { st = c02Exec(c, cas) })
			if st {
				c.Nontrivial(1)
				if c.WantSample() && len(cas.Tokens) >= 3 {
					cas.Show = clipQ(cas.body())
					c.Sample(cas)
				}
			}
		}
		for _, hdr := range []bool{true, false} {
			var gen func(cur []int, longs int)
			gen = func(cur []int, longs int) {
				run(c02Case{Backend: be, Header: hdr, Tokens: append([]int{}, cur...)})
				if len(cur) == maxTok {
					return
				}
				for t := range c02Tokens {
					l := longs
					if _, big := c02Big[c02Tokens[t]]; big {
						// at most one big token per body in the quick tier, two in the thorough tier
						if longs == 2 || (!c.Thorough() && longs == 1) {
							continue
						}
						l++
					}
					gen(append(cur, t), l)
				}
			}
			gen([]int{}, 0)
			var genL func(cur []int)
			genL = func(cur []int) {
				if len(cur) > 0 {
					run(c02Case{Backend: be, Header: hdr, Lines: append([]int{}, cur...)})
					run(c02Case{Backend: be, Header: hdr, Lines: append([]int{}, cur...), Eager: true})
				}
				if len(cur) == 3 {
					return
				}
				for t := range c02Lines {
					genL(append(cur, t))
				}
			}
			genL(nil)
			for _, sz := range []int{1, 4095, 4096, 4097, 65535, 65536, 65537, 1 << 20, 4 << 20} {
				for _, nl := range []bool{true, false} {
					run(c02Case{Backend: be, Header: hdr, Ladder: sz, FinalNL: nl, Show: "ladder"})
					if sz <= 1<<20 {
						run(c02Case{Backend: be, Header: hdr, Ladder: sz, FinalNL: nl, Show: "ladder", Eager: true})
					}
				}
			}
			if be == "mem" {
				// a memory store limited to 4 KiB: messages around and above the limit
				for _, sz := range []int{3000, 3700, 3800, 3850, 3900, 3950, 4000, 4050, 4095, 4096, 4097, 4200, 8192, 65536} {
					run(c02Case{Backend: be, Header: hdr, Ladder: sz, FinalNL: true, MaxKB: 4, Show: "ladder"})
				}
			}
		}
	}
}

func c02Replay(c *fw.Ctx, raw json.RawMessage) {
	var cas c02Case
	if err := json.Unmarshal(raw, &cas); err != nil {
		c.T.Fatalf("VERIF-INFRA bad case: %v", err)
	}
	c.Guard(cas.Backend, cas, func() { c02Exec(c, cas) })
}

func init() {
	fw.Register(&fw.Body{ID: "C02", Part: "all", Run: c02Run, ReplayCase: c02Replay})
}
