//go:build sched

package checks

import (
	"context"
	"encoding/json"
	"fmt"
	"os"
	"path/filepath"
	"strings"
	"sync"
	"time"

	"github.com/inbucket/inbucket/v3/pkg/config"
	"github.com/inbucket/inbucket/v3/pkg/storage"
	"github.com/inbucket/inbucket/v3/pkg/vrt/vsched"

	"verif/fw"
	"verif/sys"
)

// C12, concurrent clause: the real retention scanner under every schedule against deliveries,
// removals and cancellation.

type c12Spec struct {
	ID      string
	Backend string
	Kind    string // race | cancel-scan | start-join
	Sleep0  bool   // cancel-scan: RetentionSleep = 0
	MaxKB   int    // evict: the memory store's size limit
	When    string // start-join: cancel "at-once" | "after-scan-began"
	Corrupt bool   // start-join: a mailbox index is unreadable, so every scan fails
	Bound   [2]int
}

func c12Specs() []c12Spec {
	// cheapest first: each scenario gets an equal share of the time that is left
	return []c12Spec{
		{ID: "R2-mem-scan-cancel", Backend: "mem", Kind: "cancel-scan", Bound: [2]int{2, 3}},
		{ID: "R2-file-scan-cancel", Backend: "file", Kind: "cancel-scan", Bound: [2]int{2, 3}},
		{ID: "R2b-mem-scan-cancel-after-2nd-callback", Backend: "mem", Kind: "cancel-scan", When: "after-2", Bound: [2]int{2, 3}},
		{ID: "R2b-file-scan-cancel-after-2nd-callback", Backend: "file", Kind: "cancel-scan", When: "after-2", Bound: [2]int{2, 3}},
		// no pause between mailboxes configured: the context and the zero timer are then both ready
		// at every pause, and which one the select takes is the runtime's choice - an explicit choice
		// point here, so that both continuations are explored.  Continuing is legitimate in any one
		// execution; that stopping was on offer at the pauses after the request is what is checked.
		{ID: "R2c-mem-scan-cancel-no-pause-configured", Backend: "mem", Kind: "cancel-scan", Sleep0: true, Bound: [2]int{2, 3}},
		{ID: "R3-mem-start-join-cancel-at-once", Backend: "mem", Kind: "start-join", When: "at-once", Bound: [2]int{2, 3}},
		{ID: "R3-file-start-join-cancel-after-scan-began", Backend: "file", Kind: "start-join", When: "after-scan-began", Bound: [2]int{2, 3}},
		{ID: "R4-file-failing-scan-start-join", Backend: "file", Kind: "start-join", When: "after-scan-began", Corrupt: true, Bound: [2]int{2, 3}},
		// the scan removes the store's oldest message while a delivery makes the size limit evict
		// that very message: both finish, the message is gone once, the new one stays
		{ID: "R6-mem-maxkb-scan-vs-size-eviction", Backend: "mem", Kind: "evict", MaxKB: 1, Bound: [2]int{2, 3}},
		{ID: "R1-mem-scan-deliver-remove", Backend: "mem", Kind: "race", Bound: [2]int{2, 3}},
		{ID: "R1-file-scan-deliver-remove", Backend: "file", Kind: "race", Bound: [2]int{1, 2}},
	}
}

// visitLog wraps a store to observe when the scanner's per-mailbox callbacks start.
type visitLog struct {
	storage.Store
	mu        sync.Mutex
	callbacks []int64 // scheduler step at which each callback started
	began     chan struct{}
	second    chan struct{} // closed when the second callback starts
	once      sync.Once
}

func (v *visitLog) VisitMailboxes(f func([]storage.Message) bool) error {
	v.once.Do(func() { close(v.began) })
	return v.Store.VisitMailboxes(func(ms []storage.Message) bool {
		v.mu.Lock()
		v.callbacks = append(v.callbacks, vsched.StepNo())
		if len(v.callbacks) == 2 && v.second != nil {
			close(v.second)
		}
		v.mu.Unlock()
		return f(ms)
	})
}

func c12SchedScenario(c *fw.Ctx, sp c12Spec) schedScenario {
	run := func(cfg vsched.Config) (res schedResult) {
		var e *vsched.Exec
		var probs [][2]string
		var pmu sync.Mutex
		addProb := func(k, d string) { pmu.Lock(); probs = append(probs, [2]string{k, d}); pmu.Unlock() }
		outcome := ""
		if sp.Kind != "race" {
			cfg.Tick, cfg.MaxTicks = time.Minute, 3
			if sp.Kind == "cancel-scan" {
				cfg.Tick = 50 * time.Millisecond
				cfg.MaxTicks = 5
			}
		}
		leaked := inBubble(c.T, func() {
			var sh *sys.StoreH
			var cancel context.CancelFunc
			ids := map[string]string{}
			var idmu sync.Mutex
			getID := func(k string) string { idmu.Lock(); defer idmu.Unlock(); return ids[k] }
			var final func()
			e = vsched.Run(cfg, func() (func(), []vsched.Thread, func()) {
				sh = sys.NewStore(sys.StoreSpec{Backend: sp.Backend, MaxKB: sp.MaxKB}, nil)
				st := sh.Store
				now := time.Now()
				inInit := true
				add := func(key, mb string, age time.Duration) {
					pad := ""
					if sp.MaxKB > 0 {
						pad = strings.Repeat("x", 550) + "\r\n"
					}
					id, err := st.AddMessage(sys.Delivery(mb, "f@x.test", []string{"t@x.test"}, key, "Subject: r\r\n\r\nretention "+key+"\r\n"+pad, now.Add(-age)))
					if err != nil {
						if inInit {
							panic("VERIF-INFRA add: " + err.Error())
						}
						addProb("delivery-failed-during-scan", fmt.Sprintf("the delivery of %s to %s, made while the retention scan was running, failed: %v", key, mb, err))
						return
					}
					idmu.Lock()
					ids[key] = id
					idmu.Unlock()
				}
				present := func(key, mb string) bool {
					m, err := st.GetMessage(mb, getID(key))
					if err != nil || m == nil {
						return false
					}
					// present means readable: a listed message whose content is gone does not count
					o := sys.Observe(m)
					return o.BodyErr == "" && strings.Contains(o.Body, "retention "+key)
				}
				var ctx context.Context
				ctx, cancel = context.WithCancel(context.Background())
				switch sp.Kind {
				case "race":
					init := func() {
						add("e1", "boxa", 2*time.Hour)
						add("y1", "boxa", 0)
						add("e2", "boxb", 2*time.Hour)
						add("y2", "boxc", 0)
						// a mailbox holding only expired messages, which receives young mail
						// while it is being scanned
						add("e3", "boxe", 2*time.Hour)
						add("e4", "boxe", 3*time.Hour)
					}
					var scanErr error
					scanDone := false
					rs := storage.NewRetentionScanner(config.Storage{RetentionPeriod: time.Hour, RetentionSleep: 0}, st)
					ths := []vsched.Thread{
						{Name: "scanner", F: func() { scanErr = rs.DoScan(ctx); scanDone = true }},
						{Name: "deliverer", F: func() {
							inInit = false
							add("n3", "boxe", 0)
							add("n1", "boxa", 0)
							add("n2", "boxd", 0)
							// into the mailbox whose only (expired) message the remover takes away while the
							// scan may already have listed it: what arrives now is young, whatever id it gets
							add("n4", "boxb", 0)
						}},
						{Name: "remover", F: func() {
							// a young message, the last message of a mailbox, and an EXPIRED message
							// that the scanner may be about to purge itself
							_ = st.RemoveMessage("boxa", getID("y1"))
							_ = st.RemoveMessage("boxc", getID("y2"))
							_ = st.RemoveMessage("boxb", getID("e2"))
						}},
					}
					final = func() {
						if !scanDone {
							return
						}
						errNote := ""
						if scanErr != nil {
							// an error return is judged by its consequence: expired mail left behind
							errNote = " (DoScan returned: " + scanErr.Error() + ")"
						}
						var o []string
						for _, k := range []struct{ key, mb string }{{"e1", "boxa"}, {"e2", "boxb"}, {"e3", "boxe"}, {"e4", "boxe"}} {
							if present(k.key, k.mb) {
								addProb("expired-survived", fmt.Sprintf("message %s in %s was expired when the scan began, nothing else removed it, yet it is still there after the scan returned%s", k.key, k.mb, errNote))
							}
						}
						for _, k := range []struct{ key, mb string }{{"n1", "boxa"}, {"n2", "boxd"}, {"n3", "boxe"}, {"n4", "boxb"}} {
							if getID(k.key) != "" && !present(k.key, k.mb) {
								addProb("young-removed", fmt.Sprintf("message %s delivered to %s during the scan is younger than the cutoff but is gone", k.key, k.mb))
							}
							o = append(o, fmt.Sprintf("%s=%v", k.key, present(k.key, k.mb)))
						}
						outcome = strings.Join(o, " ")
					}
					return init, ths, func() { safely(final); cancel(); sh.Close() }
				case "evict":
					init := func() { add("e1", "boxa", 2*time.Hour) }
					var scanErr error
					scanDone := false
					rs := storage.NewRetentionScanner(config.Storage{RetentionPeriod: time.Hour, RetentionSleep: 0}, st)
					ths := []vsched.Thread{
						{Name: "scanner", F: func() { scanErr = rs.DoScan(ctx); scanDone = true }},
						{Name: "deliverer", F: func() { inInit = false; add("n1", "boxb", 0) }},
					}
					final = func() {
						if !scanDone {
							return
						}
						if scanErr != nil {
							addProb("scan-error", "DoScan returned an error: "+scanErr.Error())
						}
						if present("e1", "boxa") {
							addProb("expired-survived", "message e1 was expired when the scan began, yet it is still there after the scan returned")
						}
						if getID("n1") != "" && !present("n1", "boxb") {
							addProb("young-removed", "message n1, delivered during the scan and fitting the size limit once e1 is gone, is not in its mailbox")
						}
						outcome = fmt.Sprintf("n1=%v", present("n1", "boxb"))
					}
					return init, ths, func() { safely(final); cancel(); sh.Close() }
				case "cancel-scan":
					vl := &visitLog{Store: st, began: make(chan struct{}), second: make(chan struct{})}
					init := func() {
						add("e1", "boxa", 2*time.Hour)
						add("e2", "boxb", 2*time.Hour)
						add("e3", "boxc", 2*time.Hour)
						add("e4", "boxd", 2*time.Hour)
					}
					var cancelStep int64 = -1
					pause := 50 * time.Millisecond
					if sp.Sleep0 {
						pause = 0
					}
					rs := storage.NewRetentionScanner(config.Storage{RetentionPeriod: time.Hour, RetentionSleep: pause}, vl)
					var scanErr error
					ths := []vsched.Thread{
						{Name: "scanner", F: func() { scanErr = rs.DoScan(ctx) }},
						{Name: "canceller", F: func() {
							if sp.When == "after-2" {
								<-vl.second
							}
							vsched.Point("canceller: about to cancel")
							cancelStep = vsched.StepNo()
							cancel()
						}},
					}
					final = func() {
						if scanErr != nil {
							addProb("scan-error", "DoScan returned an error: "+scanErr.Error())
						}
						after := 0
						for _, s := range vl.callbacks {
							if cancelStep >= 0 && s > cancelStep {
								after++
							}
						}
						if sp.Sleep0 {
							// which of two ready cases a select takes is the runtime's choice: continuing is
							// legitimate in any one execution.  What must hold is that stopping was on offer:
							// the scan went on after the request only through selects that had more than one
							// ready case (the context being one of them).
							offered := 0
							if x := vsched.Cur(); x != nil {
								offered = len(x.SelReady)
							}
							if after > 1 && offered == 0 {
								addProb("scan-never-consults-the-context", fmt.Sprintf("%d mailbox callbacks started after shutdown was requested and the scan never reached a point at which it could have stopped (no pause between mailboxes configured)", after))
							}
						} else if after > 1 {
							addProb("scan-continues-after-cancel", fmt.Sprintf("%d mailbox callbacks started after shutdown was requested (at most the one in progress may finish and one more may start)", after))
						}
						outcome = fmt.Sprintf("callbacks=%d after-cancel=%d", len(vl.callbacks), after)
					}
					return init, ths, func() { safely(final); cancel(); sh.Close() }
				default: // start-join
					vl := &visitLog{Store: st, began: make(chan struct{})}
					init := func() {
						add("e1", "boxa", 2*time.Hour)
						if !sp.Corrupt {
							// more mailboxes than the one being visited when shutdown arrives: the scan is
							// abandoned with part of the walk still ahead
							add("e2", "boxb", 2*time.Hour)
							add("e3", "boxc", 2*time.Hour)
						}
						if sp.Corrupt {
							// an index that does not decode: VisitMailboxes, and with it every scan, fails
							_ = filepath.Walk(sh.Dir, func(p string, info os.FileInfo, err error) error {
								if err == nil && info.Name() == "index.gob" {
									_ = os.WriteFile(p, []byte("this is not a gob stream"), 0o660)
								}
								return nil
							})
						}
					}
					rs := storage.NewRetentionScanner(config.Storage{RetentionPeriod: time.Hour, RetentionSleep: 0}, vl)
					ths := []vsched.Thread{
						{Name: "start", F: func() { rs.Start(ctx) }},
						{Name: "canceller", F: func() {
							if sp.When == "after-scan-began" {
								<-vl.began
							}
							vsched.Point("canceller: about to cancel")
							cancel()
						}},
						{Name: "join", F: func() { rs.Join() }},
					}
					final = func() {
						outcome = fmt.Sprintf("scans-begun=%d e1-present=%v", len(vl.callbacks), present("e1", "boxa"))
					}
					return init, ths, func() { safely(final); cancel(); sh.Close() }
				}
			})
		})
		if leaked != "" && (e == nil || (len(e.Panics) == 0 && !e.Deadlock)) {
			res.Infra = "bubble: " + leaked
			return res
		}
		res.Exec = e
		res.Probs = append(res.Probs, stdProbs(e)...)
		for i := range res.Probs {
			if strings.HasPrefix(res.Probs[i][0], "deadlock|") && sp.Kind == "start-join" {
				res.Probs[i][0] = "start-or-join-never-returns"
				res.Probs[i][1] = "after shutdown was requested Start/Join did not return: " + res.Probs[i][1]
			}
		}
		res.Probs = append(res.Probs, probs...)
		res.Outcome = outcome
		return res
	}
	b := sp.Bound[0]
	if c.Thorough() {
		b = sp.Bound[1]
	}
	return schedScenario{ID: sp.ID, Bound: b, Run: run}
}

// safely runs an end-of-execution observation; after a deadlock or panic of the system under
// test a lock may still be held, in which case the observation is abandoned.
func safely(f func()) {
	defer func() { _ = recover() }()
	f()
}

func c12SchedRun(c *fw.Ctx) {
	specs := c12Specs()
	for i, sp := range specs {
		c.Share(len(specs)-i, func() { exploreSched(c, c12SchedScenario(c, sp)) })
	}
}

func c12SchedReplay(c *fw.Ctx, raw json.RawMessage) {
	var cas schedCase
	_ = json.Unmarshal(raw, &cas)
	for _, sp := range c12Specs() {
		if sp.ID == cas.Scenario {
			replaySched(c, c12SchedScenario(c, sp), raw)
			return
		}
	}
	c.T.Fatalf("VERIF-INFRA unknown scenario %q", cas.Scenario)
}

func init() {
	fw.Register(&fw.Body{ID: "C12", Part: "sched", Run: c12SchedRun, ReplayCase: c12SchedReplay})
}
