//go:build sched

package checks

import (
	"bufio"
	"context"
	"crypto/tls"
	"encoding/json"
	"fmt"
	"net"
	"strings"
	"sync"
	"time"

	"github.com/inbucket/inbucket/v3/pkg/config"
	"github.com/inbucket/inbucket/v3/pkg/storage"
	"github.com/inbucket/inbucket/v3/pkg/vrt/vnet"
	"github.com/inbucket/inbucket/v3/pkg/vrt/vsched"

	"verif/fw"
	"verif/sys"
)

// C19 — shutdown is graceful: open sessions finish, nothing new starts, waiting ends.
// The real smtp/pop3 Start/serve/Drain run on an in-memory listener together with the hub and the
// retention scanner, wired as server.FullAssembly wires them.

type c19Spec struct {
	ID      string
	Proto   string // smtp | pop3 | both
	Clients int
	Late    bool // a late client dials after Start has returned
	Short   bool // short dialogue
	Scanner bool // include the retention scanner (Start / Join)
	NoSrv   bool // no protocol servers at all (hub + scanner only)
	Prelude bool // sessions are opened (and brought to their protocol state) in the init phase
	TLS     bool // POP3 offers STLS; the client upgrades the session before logging in
	Slow    bool // the client pauses 250 s (fake clock) before every line: the session is active for longer than the idle timeout (600 s), never idle that long
	Bound   [2]int
	Overlap bool // two marking POP3 sessions whose deletions overlap
}

func c19Specs() []c19Spec {
	// cheapest first: each scenario gets an equal share of the time that is left
	return []c19Spec{
		{ID: "G3-smtp-late-dial", Proto: "smtp", Clients: 0, Late: true, Bound: [2]int{2, 3}},
		{ID: "G4-pop3-late-dial", Proto: "pop3", Clients: 0, Late: true, Bound: [2]int{2, 3}},
		{ID: "G6-hub-scanner-stop", Proto: "smtp", NoSrv: true, Scanner: true, Bound: [2]int{2, 3}},
		{ID: "G8-pop3-two-sessions-idle-and-marked", Proto: "pop3", Clients: 2, Short: true, Prelude: true, Bound: [2]int{1, 2}},
		{ID: "G7-smtp-two-sessions-idle-and-transfer", Proto: "smtp", Clients: 2, Short: true, Prelude: true, Bound: [2]int{1, 2}},
		{ID: "G2-pop3-session-cancel-drain", Proto: "pop3", Clients: 1, Bound: [2]int{1, 2}},
		// two sessions on one mailbox of three messages, both past their DELEs when shutdown is
		// requested: A has marked message 1, B messages 1 and 2.  Whoever commits first, messages
		// 1 and 2 are gone afterwards and message 3 stays (a deletion that finds its message gone
		// already does not cancel the session's other deletions)
		{ID: "G19-pop3-two-sessions-overlapping-deletions", Proto: "pop3", Clients: 2, Short: true, Prelude: true, Overlap: true, Bound: [2]int{0, 1}},
		{ID: "G12-pop3-slow-session-outlives-the-idle-timeout", Proto: "pop3", Clients: 1, Slow: true, Bound: [2]int{1, 2}},
		{ID: "G11-pop3-stls-session-cancel-drain", Proto: "pop3", Clients: 1, TLS: true, Bound: [2]int{1, 2}},
		{ID: "G5-both-two-sessions", Proto: "both", Clients: 2, Short: true, Bound: [2]int{0, 1}},
		{ID: "G1-smtp-session-cancel-drain", Proto: "smtp", Clients: 1, Bound: [2]int{1, 2}},
	}
}

type c19Client struct {
	proto     string
	greeted   int64 // step at which the greeting was received (-1 = never)
	completed int64 // step at which the reply to QUIT was received (-1 = never)
	replies   []string
	refused   bool
	broke     string
	idle      bool     // an SMTP session that only says HELO and QUIT
	second    bool     // the second client of a two-client scenario
	tlsConn   net.Conn // set once the session has been upgraded with STLS
	tlsR      *bufio.Reader
}

func c19Scenario(c *fw.Ctx, sp c19Spec) schedScenario {
	run := func(cfg vsched.Config) (res schedResult) {
		var e *vsched.Exec
		var mu sync.Mutex
		var clients []*c19Client
		var late *c19Client
		var drainCalled, drainReturned = map[string]int64{}, map[string]int64{}
		var startReturned = map[string]int64{}
		var cancelStep int64 = -1
		leftAtDrainReturn := -1 // messages in the POP3 client's mailbox at the moment POP3 Drain returned
		joinReturned, hubReturned := false, false
		var finalCheck func() [][2]string
		var finalProbs [][2]string
		if sp.Slow {
			// the fake clock advances (in steps of 125 s) whenever nothing else can run
			cfg.Tick, cfg.MaxTicks = 125*time.Second, 16
		}
		leaked := inBubble(c.T, func() {
			var cancel context.CancelFunc
			var s *sys.Sys
			listeners := map[string]*vnet.MemListener{}
			e = vsched.Run(cfg, func() (func(), []vsched.Thread, func()) {
				smtpc := sys.DefaultSMTP()
				smtpc.Addr = "127.0.0.1:2500"
				s = sys.New(sys.Spec{Store: sys.StoreSpec{Backend: "mem"}, SMTP: smtpc, POP3TLS: sp.TLS})
				listeners["smtp"] = vnet.NewMemListener()
				listeners["pop3"] = vnet.NewMemListener()
				vnet.Fake = func(addr string) net.Listener {
					if strings.HasSuffix(addr, ":2500") {
						return listeners["smtp"]
					}
					return listeners["pop3"]
				}
				var ctx context.Context
				ctx, cancel = context.WithCancel(context.Background())
				cancelled := make(chan struct{})
				started := map[string]chan struct{}{"smtp": make(chan struct{}), "pop3": make(chan struct{})}
				ready := map[string]chan struct{}{"smtp": make(chan struct{}), "pop3": make(chan struct{})}
				rs := storage.NewRetentionScanner(config.Storage{RetentionPeriod: 24 * time.Hour, RetentionSleep: 0}, s.StoreH.Store)
				init := func() {
					// one message for the POP3 client to delete
					_, _ = s.StoreH.Store.AddMessage(sys.Delivery("u", "f@x.test", []string{"u@x.test"}, "old", "Subject: old\r\n\r\nold\r\n", time.Now()))
					if sp.Overlap {
						for _, n := range []string{"second", "third"} {
							_, _ = s.StoreH.Store.AddMessage(sys.Delivery("u", "f@x.test", []string{"u@x.test"}, n, "Subject: "+n+"\r\n\r\n"+n+"\r\n", time.Now()))
						}
					}
				}
				protos := []string{sp.Proto}
				if sp.Proto == "both" {
					protos = []string{"smtp", "pop3"}
				}
				var ths []vsched.Thread
				// the hub must return after shutdown; it is a scheduled thread of its own only in
				// the hub/scanner scenario, elsewhere a background goroutine of the system
				ths = append(ths, vsched.Thread{Name: "hub", Daemon: !sp.NoSrv, Early: sp.Prelude, F: func() { s.Hub.Start(ctx); hubReturned = true }})
				if sp.Scanner {
					ths = append(ths, vsched.Thread{Name: "scanner", F: func() { rs.Start(ctx) }})
					ths = append(ths, vsched.Thread{Name: "join", F: func() { <-cancelled; rs.Join(); joinReturned = true }})
				} else {
					joinReturned = true
				}
				if sp.NoSrv {
					protos = nil
				}
				for _, p := range protos {
					p := p
					ths = append(ths, vsched.Thread{Name: p + "-start", Early: sp.Prelude, F: func() {
						rf := func() { close(ready[p]) }
						if p == "smtp" {
							s.SMTP.Start(ctx, rf)
						} else {
							s.POP3.Start(ctx, rf)
						}
						mu.Lock()
						startReturned[p] = vsched.StepNo()
						mu.Unlock()
						close(started[p])
					}})
					ths = append(ths, vsched.Thread{Name: p + "-drain", F: func() {
						<-cancelled
						mu.Lock()
						drainCalled[p] = vsched.StepNo()
						mu.Unlock()
						if p == "smtp" {
							s.SMTP.Drain()
						} else {
							s.POP3.Drain()
						}
						mu.Lock()
						drainReturned[p] = vsched.StepNo()
						mu.Unlock()
						if p == "pop3" {
							// what main would leave behind if it exited now
							ms, _ := s.StoreH.Store.GetMessages("u")
							mu.Lock()
							leftAtDrainReturn = len(ms)
							mu.Unlock()
						}
					}})
				}
				// TLS scenario: shutdown is requested no earlier than the moment the client is about
				// to send STLS (earlier moments are what G2 explores)
				stlsGate := make(chan struct{})
				var stlsOnce sync.Once
				ths = append(ths, vsched.Thread{Name: "canceller", F: func() {
					if sp.TLS {
						<-stlsGate
					}
					vsched.Point("canceller: about to request shutdown")
					mu.Lock()
					cancelStep = vsched.StepNo()
					mu.Unlock()
					cancel()
					close(cancelled)
				}})
				dialogue := func(cl *c19Client) []string {
					if cl.proto == "smtp" {
						if sp.Short && cl.idle {
							return []string{"HELO c", "QUIT"}
						}
						return []string{"HELO c", "MAIL FROM:<s@o.test>", "RCPT TO:<r@x.test>", "DATA", "Subject: g\r\n\r\nbody\r\n.", "QUIT"}
					}
					if cl.idle {
						return []string{"USER u", "QUIT"}
					}
					if sp.TLS {
						return []string{"STLS", "USER u", "PASS p", "DELE 1", "QUIT"}
					}
					if sp.Overlap && cl.second {
						return []string{"USER u", "PASS p", "DELE 1", "DELE 2", "QUIT"}
					}
					return []string{"USER u", "PASS p", "DELE 1", "QUIT"}
				}
				// talk runs the given lines on an open connection (a scheduling point before each)
				talk := func(cl *c19Client, conn net.Conn, r *bufio.Reader, lines []string, points bool) bool {
					for _, line := range lines {
						if sp.Slow {
							time.Sleep(250 * time.Second)
						}
						if points {
							vsched.Point("client: about to send " + strings.Fields(line)[0])
						}
						if cl.tlsConn != nil {
							conn, r = cl.tlsConn, cl.tlsR
						}
						if line == "STLS" {
							stlsOnce.Do(func() { close(stlsGate) })
							vsched.Point("client: about to send STLS (shutdown may be requested from here on)")
						}
						if _, err := fmt.Fprintf(conn, "%s\r\n", line); err != nil {
							cl.broke = "write failed before " + strings.Fields(line)[0]
							return false
						}
						l, err := r.ReadString('\n')
						if err != nil {
							cl.broke = "connection closed instead of a reply to " + strings.Fields(line)[0]
							return false
						}
						cl.replies = append(cl.replies, strings.TrimSpace(l))
						if line == "STLS" && strings.HasPrefix(l, "+OK") {
							// TLS 1.2: no post-handshake messages, which would collide with the next
							// command on an unbuffered in-memory connection
							tc := tls.Client(conn, &tls.Config{InsecureSkipVerify: true, MaxVersion: tls.VersionTLS12})
							if err := tc.Handshake(); err != nil {
								cl.broke = "the server offered STLS and answered +OK, but the TLS handshake failed: " + err.Error()
								return false
							}
							cl.tlsConn, cl.tlsR = tc, bufio.NewReader(tc)
						}
					}
					return true
				}
				open := func(cl *c19Client) (net.Conn, *bufio.Reader, bool) {
					conn, err := listeners[cl.proto].Dial()
					if err != nil {
						cl.refused = true
						return nil, nil, false
					}
					r := bufio.NewReader(conn)
					l, err := r.ReadString('\n')
					if err != nil {
						cl.broke = "connection closed before the greeting"
						return conn, r, false
					}
					cl.replies = append(cl.replies, strings.TrimSpace(l))
					mu.Lock()
					cl.greeted = vsched.StepNo()
					mu.Unlock()
					return conn, r, true
				}
				session := func(cl *c19Client, waitFor chan struct{}) func() {
					return func() {
						<-waitFor
						vsched.Point("client: about to dial " + cl.proto)
						conn, r, ok := open(cl)
						if conn != nil {
							defer conn.Close()
						}
						if !ok {
							return
						}
						if talk(cl, conn, r, dialogue(cl), true) {
							mu.Lock()
							cl.completed = vsched.StepNo()
							mu.Unlock()
						}
					}
				}
				// prelude: how many lines of the dialogue are spoken during init
				preludeLines := func(cl *c19Client) int {
					switch {
					case cl.idle:
						return 1 // HELO / USER
					case cl.proto == "smtp":
						return 4 // … up to DATA (354): a transfer is in progress
					case sp.Overlap && cl.second:
						return 4 // USER, PASS, DELE 1, DELE 2
					default:
						return 3 // USER, PASS, DELE 1: a deletion is pending
					}
				}
				type openSess struct {
					cl   *c19Client
					conn net.Conn
					r    *bufio.Reader
					ok   bool
				}
				var opened []*openSess
				if sp.Prelude {
					prev := init
					init = func() {
						prev()
						for _, p := range protos {
							<-ready[p]
						}
						for _, cl := range clients {
							o := &openSess{cl: cl}
							o.conn, o.r, o.ok = open(cl)
							if o.ok {
								o.ok = talk(cl, o.conn, o.r, dialogue(cl)[:preludeLines(cl)], false)
							}
							opened = append(opened, o)
						}
					}
				}
				for i := 0; i < sp.Clients; i++ {
					if len(protos) == 0 {
						break
					}
					p := protos[i%len(protos)]
					cl := &c19Client{proto: p, greeted: -1, completed: -1, idle: sp.Clients == 2 && len(protos) == 1 && i == 0 && !sp.Overlap, second: i == 1}
					clients = append(clients, cl)
					if !sp.Prelude {
						ths = append(ths, vsched.Thread{Name: fmt.Sprintf("client%d-%s", i, p), F: session(cl, ready[p])})
						continue
					}
					i := i
					ths = append(ths, vsched.Thread{Name: fmt.Sprintf("client%d-%s-rest", i, p), F: func() {
						o := opened[i]
						if o.conn != nil {
							defer o.conn.Close()
						}
						if !o.ok {
							return
						}
						if talk(cl, o.conn, o.r, dialogue(cl)[preludeLines(cl):], true) {
							mu.Lock()
							cl.completed = vsched.StepNo()
							mu.Unlock()
						}
					}})
				}
				if sp.Late && len(protos) > 0 {
					late = &c19Client{proto: protos[0], greeted: -1, completed: -1}
					ths = append(ths, vsched.Thread{Name: "late-client", F: session(late, started[protos[0]])})
				}
				finalCheck = func() (probs [][2]string) {
					st := s.StoreH.Store
					for i, cl := range clients {
						if cl.greeted < 0 {
							continue
						}
						dc, called := drainCalled[cl.proto]
						if called && cl.greeted >= dc {
							continue // opened after Drain was called: not covered
						}
						// (1) an open session completes its dialogue
						if cl.completed < 0 {
							probs = append(probs, [2]string{"open-session-cut|" + cl.proto, fmt.Sprintf("client %d (%s) had received the greeting before Drain was called but its dialogue was cut: %s; replies so far %v", i, cl.proto, cl.broke, cl.replies)})
							continue
						}
						if cl.proto == "smtp" && cl.idle {
							if len(cl.replies) != 3 {
								probs = append(probs, [2]string{"open-session-cut|smtp", fmt.Sprintf("idle client %d: replies %v", i, cl.replies)})
							}
						} else if cl.proto == "smtp" {
							ok := len(cl.replies) == 7 && strings.HasPrefix(cl.replies[5], "250") && strings.HasPrefix(cl.replies[6], "221")
							ms, _ := st.GetMessages("r")
							if !ok || len(ms) < 1 {
								probs = append(probs, [2]string{"in-flight-mail-lost", fmt.Sprintf("client %d's message transfer was in progress during shutdown: replies %v, mailbox r holds %d messages", i, cl.replies, len(ms))})
							}
						} else if cl.idle {
							if len(cl.replies) != 3 {
								probs = append(probs, [2]string{"open-session-cut|pop3", fmt.Sprintf("idle client %d: replies %v", i, cl.replies)})
							}
						} else {
							ms, _ := st.GetMessages("u")
							nrep, left := 5, 0
							if sp.TLS {
								nrep = 6
							}
							if sp.Overlap {
								left = 1 // the third message
								if cl.second {
									nrep = 6
								}
							}
							if len(cl.replies) != nrep || !strings.HasPrefix(cl.replies[nrep-1], "+OK") || len(ms) != left {
								probs = append(probs, [2]string{"pop3-deletes-not-applied", fmt.Sprintf("client %d marked message 1 and sent QUIT during shutdown: replies %v, mailbox u still holds %d messages", i, cl.replies, len(ms))})
							} else if leftAtDrainReturn > left {
								// the process exits when the drain calls have returned: what is not applied by then is lost
								probs = append(probs, [2]string{"pop3-deletes-pending-at-drain-return", fmt.Sprintf("client %d's session was open before Drain was called, marked message 1 and sent QUIT: when POP3 Drain returned, mailbox u still held %d message(s) - the deletion was applied only afterwards (main exits as soon as the drain calls return)", i, leftAtDrainReturn)})
							}
						}
						// (2) Drain returns only after the session has ended
						if dr, ok := drainReturned[cl.proto]; ok && dr < cl.completed {
							probs = append(probs, [2]string{"drain-returned-early|" + cl.proto, fmt.Sprintf("%s Drain returned at step %d while client %d's session (greeted at step %d, before Drain was called at step %d) was still in its dialogue (completed at step %d)", cl.proto, dr, i, cl.greeted, dc, cl.completed)})
						}
					}
					if late != nil && !late.refused && late.greeted >= 0 {
						probs = append(probs, [2]string{"accepted-after-shutdown|" + late.proto, fmt.Sprintf("a client that dialled after %s Start had returned (listener closed) was still greeted: %v", late.proto, late.replies)})
					}
					return probs
				}
				cleanup := func() {
					safely(func() { finalProbs = finalCheck() })
					cancel()
					for _, l := range listeners {
						_ = l.Close()
					}
					s.Close()
				}
				return init, ths, cleanup
			})
			vnet.Fake = nil
		})
		if leaked != "" && (e == nil || (len(e.Panics) == 0 && !e.Deadlock)) {
			res.Infra = "bubble: " + leaked
			return res
		}
		res.Exec = e
		res.Probs = append(res.Probs, stdProbs(e)...)
		for i := range res.Probs {
			if strings.HasPrefix(res.Probs[i][0], "deadlock|") {
				// name what did not return
				var what []string
				for _, b := range e.Blocked {
					what = append(what, b)
				}
				res.Probs[i][0] = "shutdown-blocks|" + c19BlockClass(e.Blocked)
				res.Probs[i][1] = "shutdown does not complete: these never return: " + strings.Join(what, ", ")
			}
		}
		if len(res.Probs) == 0 {
			res.Probs = append(res.Probs, finalProbs...)
			if !joinReturned || !hubReturned {
				res.Probs = append(res.Probs, [2]string{"join-or-hub-not-returned", fmt.Sprintf("after shutdown: scanner Join returned=%v hub Start returned=%v", joinReturned, hubReturned)})
			}
		}
		var o []string
		for _, cl := range clients {
			o = append(o, fmt.Sprintf("%s:greeted=%v,completed=%v,replies=%d", cl.proto, cl.greeted >= 0 && (cancelStep < 0 || cl.greeted < cancelStep), cl.completed >= 0, len(cl.replies)))
		}
		if late != nil {
			o = append(o, fmt.Sprintf("late:refused=%v", late.refused))
		}
		res.Outcome = strings.Join(o, " ")
		return res
	}
	b := sp.Bound[0]
	if c.Thorough() {
		b = sp.Bound[1]
	}
	return schedScenario{ID: sp.ID, Bound: b, Run: run}
}

func c19BlockClass(blocked []string) string {
	var names []string
	for _, b := range blocked {
		if i := strings.Index(b, "@"); i > 0 {
			names = append(names, b[i+1:])
		}
	}
	return strings.Join(names, ",")
}

func c19Run(c *fw.Ctx) {
	// the retention scanner's Start/Join against a cancel that arrives at once / in the middle of
	// a scan (the scenarios of C12's R3, which drive the fake clock): part of "the retention
	// scanner … stops without blocking shutdown"
	for _, sp := range c12Specs() {
		if sp.Kind == "start-join" {
			sc := c12SchedScenario(c, sp)
			sc.ID = "G9-scanner-" + sp.ID
			c.Share(8, func() { exploreSched(c, sc) })
		}
	}
	c.Share(8, func() { exploreSched(c, c19HubFullScenario(c)) })
	for _, sc := range c19LifeScenarios(c) {
		c.Share(8, func() { exploreSched(c, sc) })
	}
	specs := c19Specs()
	for i, sp := range specs {
		if sp.ID == "G5-both-two-sessions" && !c.Thorough() {
			continue // two servers × two sessions: 4.4M+ schedules already at bound 0; thorough tier only
		}
		c.Share(len(specs)-i, func() { exploreSched(c, c19Scenario(c, sp)) })
	}
}

func c19Replay(c *fw.Ctx, raw json.RawMessage) {
	var cas schedCase
	_ = json.Unmarshal(raw, &cas)
	for _, sp := range c12Specs() {
		if "G9-scanner-"+sp.ID == cas.Scenario {
			sc := c12SchedScenario(c, sp)
			sc.ID = cas.Scenario
			replaySched(c, sc, raw)
			return
		}
	}
	if sc := c19HubFullScenario(c); sc.ID == cas.Scenario {
		replaySched(c, sc, raw)
		return
	}
	for _, sc := range c19LifeScenarios(c) {
		if sc.ID == cas.Scenario {
			replaySched(c, sc, raw)
			return
		}
	}
	for _, sp := range c19Specs() {
		if sp.ID == cas.Scenario {
			replaySched(c, c19Scenario(c, sp), raw)
			return
		}
	}
	c.T.Fatalf("VERIF-INFRA unknown scenario %q", cas.Scenario)
}

func init() {
	fw.Register(&fw.Body{ID: "C19", Part: "sched", Run: c19Run, ReplayCase: c19Replay})
}
