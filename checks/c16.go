//go:build go1.25

package checks

import (
	"context"
	"encoding/json"
	"errors"
	"fmt"
	"io"
	"os"
	"sort"
	"strings"
	"sync"
	"syscall"
	"testing/iotest"
	"time"

	"github.com/inbucket/inbucket/v3/pkg/config"
	"github.com/inbucket/inbucket/v3/pkg/extension/event"
	"github.com/inbucket/inbucket/v3/pkg/policy"
	"github.com/inbucket/inbucket/v3/pkg/storage"

	"verif/fw"
	"verif/sys"
)

// C16 — each stored and each removed message produces exactly one event, in causal order.
// Counting clause: histories × limits × backends, events counted at exact quiescence.

var c16Ops = []string{"add x 300", "add x 1100", "add y 600", "add y 2100", "remove x oldest", "remove x newest", "remove y oldest",
	"purge x", "purge y", "delete-unknown x", "scan",
	// one message to two recipients: two copies into one mailbox (x+a@, x+b@), and one each into x and y
	"add2 x x 300", "add2 x y 600",
	// a delivery whose source fails half way (straight to the store: the manager's source cannot fail)
	"addfail x",
	// a before.message_stored extension sends the message to a mailbox whose name is written with
	// an upper-case letter (the stores keep names as given): its events carry that very name
	"add-redirect Zed 300", "remove Zed oldest", "purge Zed",
	// environment fault: the process has run out of file descriptors while mailbox x is purged
	// (every open fails with EMFILE; stat, unlink and rename still work).  Whatever the store makes
	// of it, messages that leave are announced and messages that are announced as gone are gone.
	"purge-emfile x"}

type c16Case struct {
	Spec sys.StoreSpec `json:"spec"`
	Seq  []int         `json:"seq"`
	Ops  []string      `json:"ops,omitempty"`
}

func c16Desc(spec sys.StoreSpec, seq []int) c16Case {
	cas := c16Case{Spec: spec, Seq: append([]int{}, seq...)}
	for _, i := range seq {
		cas.Ops = append(cas.Ops, c16Ops[i])
	}
	return cas
}

// c16Monitor is a monitor attached to the message hub from the start.
type c16Monitor struct {
	mu      sync.Mutex
	stored  map[string]int
	deleted map[string]int
}

func (m *c16Monitor) Receive(msg event.MessageMetadata) error {
	m.mu.Lock()
	defer m.mu.Unlock()
	if m.stored == nil {
		m.stored, m.deleted = map[string]int{}, map[string]int{}
	}
	m.stored[msg.Mailbox+"/"+msg.ID]++
	return nil
}

func (m *c16Monitor) Delete(mailbox, id string) error {
	m.mu.Lock()
	defer m.mu.Unlock()
	if m.stored == nil {
		m.stored, m.deleted = map[string]int{}, map[string]int{}
	}
	m.deleted[mailbox+"/"+id]++
	return nil
}

type evRec struct {
	mu      sync.Mutex
	stored  []string
	deleted []string
	order   []string // "stored:<mailbox>/<id>" / "deleted:<mailbox>/<id>" in order of arrival
}

func c16Exec(c *fw.Ctx, spec sys.StoreSpec, seq []int, from int) (key string, extend, nontrivial bool) {
	cas := c16Desc(spec, seq)
	extend = true
	leaked := sys.InBubble(c.T, func() {
		// the message hub remembers a single message: every other one has rotated out of its history
		// by the time it is removed, and a monitor attached all along must be told all the same
		s := sys.New(sys.Spec{Store: spec, SMTP: sys.DefaultSMTP(), History: 1})
		defer s.Close()
		ctx, cancel := context.WithCancel(context.Background())
		go s.Hub.Start(ctx)
		defer func() { cancel(); sys.BubbleWait() }()
		monitor := &c16Monitor{}
		s.Hub.AddListener(monitor)
		rec := &evRec{}
		s.Ext.Events.AfterMessageStored.AddListener("verif", func(m event.MessageMetadata) {
			rec.mu.Lock()
			rec.stored = append(rec.stored, m.Mailbox+"/"+m.ID)
			rec.order = append(rec.order, "stored:"+m.Mailbox+"/"+m.ID)
			rec.mu.Unlock()
		})
		s.Ext.Events.AfterMessageDeleted.AddListener("verif", func(m event.MessageMetadata) {
			rec.mu.Lock()
			rec.deleted = append(rec.deleted, m.Mailbox+"/"+m.ID)
			rec.order = append(rec.order, "deleted:"+m.Mailbox+"/"+m.ID)
			rec.mu.Unlock()
		})
		st := s.StoreH.Store
		deliveries := 0
		redirectTo, redirectNext := "", "" // redirectNext: applies to the next real delivery only
		s.Ext.Events.BeforeMessageStored.AddListener("verif-redirect", func(in event.InboundMessage) *event.InboundMessage {
			if redirectTo == "" {
				return nil
			}
			out := in
			out.Mailboxes = []string{redirectTo}
			return &out
		})
		fail := func(key, detail string) {
			c.Violate(spec.Backend+"|"+key, fmt.Sprintf("%s\nstore %s, history: %s", detail, spec, strings.Join(cas.Ops, "; ")), cas)
			extend = false
		}
		// overhead of the trace headers (same for the 1-character mailbox names used here)
		overhead := -1
		deliver := func(total int, mbs ...string) {
			from, _ := s.Policy.ParseOrigin("s@o.test")
			var rcs []*policy.Recipient
			for i, mb := range mbs {
				addr := mb + "@x.test"
				if len(mbs) > 1 {
					addr = fmt.Sprintf("%s+%c@x.test", mb, 'a'+i) // same length for every copy
				}
				rc, err := s.Policy.NewRecipient(addr)
				if err != nil {
					panic("VERIF-INFRA recipient: " + err.Error())
				}
				rcs = append(rcs, rc)
			}
			if overhead < 0 {
				// measure once on a throw-away mailbox of the same name length
				p, _ := s.Policy.NewRecipient("p@x.test")
				if err := s.Mgr.Deliver(from, []*policy.Recipient{p}, "Received: from c ([pipe]) by verif.test\r\n", []byte("probe")); err != nil {
					panic("VERIF-INFRA probe: " + err.Error())
				}
				ms, _ := st.GetMessages("p")
				if len(ms) == 1 {
					overhead = int(ms[0].Size()) - 5
				} else {
					overhead = 0
				}
				_ = st.PurgeMessages("p")
				sys.BubbleWait()
				rec.stored, rec.deleted, rec.order = nil, nil, nil
			}
			time.Sleep(time.Hour) // fake clock: messages are one hour apart
			src := sizedBody(max(total-overhead, 30))
			redirectTo, redirectNext = redirectNext, ""
			err := s.Mgr.Deliver(from, rcs, "Received: from c ([pipe]) by verif.test\r\n", []byte(src))
			redirectTo = ""
			if err != nil {
				fail("deliver-error", "Deliver failed: "+err.Error())
			}
			deliveries += len(rcs)
		}
		excused := map[string]bool{} // messages whose known-finding ordering was reported already
		for si, oi := range seq {
			f := strings.Fields(c16Ops[oi])
			switch f[0] {
			case "add":
				var sz int
				fmt.Sscan(f[2], &sz)
				deliver(sz, f[1])
				nontrivial = true
			case "add-redirect":
				var sz int
				fmt.Sscan(f[2], &sz)
				redirectNext = f[1]
				deliver(sz, "x")
				nontrivial = true
			case "addfail":
				d := sys.Delivery(f[1], "s@o.test", []string{f[1] + "@x.test"}, "f", "", time.Now())
				d.Reader = io.MultiReader(strings.NewReader("Subject: f\r\n\r\nhalf of the bo"), iotest.ErrReader(errors.New("source failed")))
				if _, err := st.AddMessage(d); err == nil {
					fail("addfail-success", "AddMessage reported success although its source returned an error")
				}
			case "add2":
				var sz int
				fmt.Sscan(f[3], &sz)
				deliver(sz, f[1], f[2])
				nontrivial = true
			case "remove":
				ms, _ := st.GetMessages(f[1])
				if len(ms) > 0 {
					m := ms[0]
					if f[2] == "newest" {
						m = ms[len(ms)-1]
					}
					_ = st.RemoveMessage(f[1], m.ID())
					nontrivial = true
				}
			case "purge":
				ms, _ := st.GetMessages(f[1])
				nontrivial = nontrivial || len(ms) > 0
				_ = st.PurgeMessages(f[1])
			case "purge-emfile":
				restore := exhaustFileDescriptors()
				err := st.PurgeMessages(f[1])
				restore()
				c.Count("purges_under_emfile", 1)
				if err != nil {
					c.Count("purges_under_emfile_refused", 1)
				}
			case "delete-unknown":
				_ = st.RemoveMessage(f[1], "no-such-id")
			case "scan":
				var newest time.Time
				_ = st.VisitMailboxes(func(ms []storage.Message) bool {
					for _, m := range ms {
						if m.Date().After(newest) {
							newest = m.Date()
						}
					}
					return true
				})
				if !newest.IsZero() {
					cutoff := newest.Add(-30 * time.Minute)
					rs := storage.NewRetentionScanner(config.Storage{RetentionPeriod: time.Since(cutoff), RetentionSleep: 0}, st)
					if err := rs.DoScan(context.Background()); err != nil {
						fail("scan-error", "DoScan: "+err.Error())
					}
				}
			}
			sys.BubbleWait()
			rec.mu.Lock()
			order := append([]string{}, rec.order...)
			rec.mu.Unlock()
			// causal order: no 'deleted' for a message before its 'stored'
			seenStored := map[string]bool{}
			for _, ev := range order {
				if k, ok := strings.CutPrefix(ev, "stored:"); ok {
					seenStored[k] = true
				} else if k, ok := strings.CutPrefix(ev, "deleted:"); ok && !seenStored[k] && !excused[k] {
					detail := fmt.Sprintf("the 'deleted' event for %s arrived before its 'stored' event (or without one); events in order of arrival: %v", k, order)
					var sz int
					if f[0] == "add" {
						fmt.Sscan(f[2], &sz)
					}
					if spec.MaxKB > 0 && sz > spec.MaxKB*1024 && len(order) >= 2 && order[len(order)-2] == "deleted:"+k && order[len(order)-1] == "stored:"+k {
						// the one known way (see known_findings.txt): the message alone exceeds the
						// store's size limit and is evicted by its own delivery.  Reported under its
						// own key, and the history is explored further.
						if si >= from {
							c.Violate(spec.Backend+"|deleted-before-stored|message-larger-than-the-size-limit-evicted-by-its-own-delivery",
								fmt.Sprintf("%s\nstore %s, history: %s", detail, spec, strings.Join(cas.Ops, "; ")), cas)
						}
						excused[k] = true
						continue
					}
					if si >= from {
						fail("deleted-before-stored|"+c16Cause(spec, c16Ops[oi]), detail)
					}
					break
				}
			}
			if si < from {
				continue
			}
			// accounting: stored − deleted == what the store lists; no duplicates; no phantom
			rec.mu.Lock()
			stored, deleted := append([]string{}, rec.stored...), append([]string{}, rec.deleted...)
			rec.mu.Unlock()
			if len(stored) != deliveries {
				fail("stored-count", fmt.Sprintf("%d deliveries were acknowledged but %d 'stored' events arrived: %v", deliveries, len(stored), stored))
				break
			}
			sset, dset := map[string]bool{}, map[string]bool{}
			for _, x := range stored {
				if sset[x] {
					fail("stored-duplicate", "two 'stored' events for "+x)
				}
				sset[x] = true
			}
			for _, x := range deleted {
				if dset[x] {
					fail("deleted-duplicate", "two 'deleted' events for "+x)
				}
				dset[x] = true
				if !sset[x] {
					fail("deleted-phantom", "'deleted' event for "+x+" which was never announced as stored")
				}
			}
			live := map[string]bool{}
			for _, mb := range []string{"x", "y", "Zed", "zed"} {
				ms, _ := st.GetMessages(mb)
				for _, m := range ms {
					live[mb+"/"+m.ID()] = true
				}
			}
			var missingDel, wrongDel []string
			for x := range sset {
				if !live[x] && !dset[x] {
					missingDel = append(missingDel, x)
				}
				if live[x] && dset[x] {
					wrongDel = append(wrongDel, x)
				}
			}
			sort.Strings(missingDel)
			if len(missingDel) > 0 {
				fail("deleted-missing|"+c16Cause(spec, c16Ops[oi]), fmt.Sprintf("messages %v left the store (last op: %s) but no 'deleted' event was emitted for them", missingDel, c16Ops[oi]))
			}
			if len(wrongDel) > 0 {
				fail("deleted-but-present", fmt.Sprintf("'deleted' events for %v although the messages are still listed", wrongDel))
			}
			for x := range live {
				if !sset[x] {
					fail("stored-missing", "message "+x+" is in the store but no 'stored' event was emitted")
				}
			}
			// what the extension saw, the attached monitor saw too (through the hub)
			monitor.mu.Lock()
			for x := range sset {
				if monitor.stored[x] != 1 {
					fail("monitor-stored-count", fmt.Sprintf("the monitor attached to the message hub was told %d times that %s was stored (the extension: once)", monitor.stored[x], x))
					break
				}
			}
			for x := range dset {
				if monitor.deleted[x] != 1 {
					fail("monitor-deleted-count", fmt.Sprintf("the monitor attached to the message hub was told %d times that %s was deleted (the extension: once; the hub remembers 1 message)", monitor.deleted[x], x))
					break
				}
			}
			monitor.mu.Unlock()
			if !extend {
				break
			}
		}
		// at quiescence the hub's replayed history must be consistent with the events
		rec.mu.Lock()
		key = fmt.Sprintf("s%d d%d", len(rec.stored), len(rec.deleted))
		rec.mu.Unlock()
		for _, mb := range []string{"x", "y"} {
			ms, _ := st.GetMessages(mb)
			key += fmt.Sprintf("|%s:", mb)
			for _, m := range ms {
				key += fmt.Sprintf("%d,", m.Size())
			}
		}
	})
	if leaked != "" {
		c.Violate(spec.Backend+"|goroutine-left-blocked", "a goroutine is blocked forever after the history: "+leaked, cas)
		return "", false, false
	}
	return key, extend, nontrivial
}

func c16Cause(spec sys.StoreSpec, op string) string {
	switch {
	case strings.HasPrefix(op, "add") && spec.Cap > 0 && spec.MaxKB > 0:
		return "cap-or-size-eviction"
	case strings.HasPrefix(op, "add") && spec.Cap > 0:
		return "cap-eviction"
	case strings.HasPrefix(op, "add"):
		return "size-eviction"
	}
	return strings.Fields(op)[0]
}

func c16Specs() []sys.StoreSpec {
	var out []sys.StoreSpec
	for _, capN := range []int{1, 0, 2} {
		for _, kb := range []int{0, 2} {
			out = append(out, sys.StoreSpec{Backend: "mem", Cap: capN, MaxKB: kb})
		}
		out = append(out, sys.StoreSpec{Backend: "file", Cap: capN})
	}
	return out
}

func c16Run(c *fw.Ctx) {
	for _, spec := range c16Specs() {
		spec := spec
		e := &fw.SeqExplorer{
			C: c, NOps: len(c16Ops),
			FullDepth: fw.Pick(c, 3, 4),
			MaxDepth:  fw.Pick(c, 4, 6),
			Run: func(seq []int) (string, bool, bool) {
				var key string
				var ext, nt bool
				if c.Guard(spec.Backend, c16Desc(spec, seq), func() { key, ext, nt = c16Exec(c, spec, seq, len(seq)-1) }) {
					return "", false, false
				}
				return key, ext, nt
			},
			Desc: func(seq []int) any { return c16Desc(spec, seq) },
		}
		e.Explore()
	}
}

func c16Replay(c *fw.Ctx, raw json.RawMessage) {
	var cas c16Case
	if err := json.Unmarshal(raw, &cas); err != nil {
		c.T.Fatalf("VERIF-INFRA bad case: %v", err)
	}
	c.Guard(cas.Spec.Backend, cas, func() { c16Exec(c, cas.Spec, cas.Seq, 0) })
}

func init() {
	fw.Register(&fw.Body{ID: "C16", Part: "count", Run: c16Run, ReplayCase: c16Replay})
}

// exhaustFileDescriptors makes every further open in this process fail with EMFILE until the
// returned function is called: the soft limit is lowered to just above the descriptors in use
// and the gaps below it are filled.
func exhaustFileDescriptors() (restore func()) {
	var old syscall.Rlimit
	if err := syscall.Getrlimit(syscall.RLIMIT_NOFILE, &old); err != nil {
		return func() {}
	}
	ents, _ := os.ReadDir("/proc/self/fd")
	low := old
	low.Cur = uint64(len(ents) + 8)
	if low.Cur > old.Cur {
		return func() {}
	}
	if err := syscall.Setrlimit(syscall.RLIMIT_NOFILE, &low); err != nil {
		return func() {}
	}
	var fill []*os.File
	for i := 0; i < 64; i++ {
		f, err := os.Open("/dev/null")
		if err != nil {
			break
		}
		fill = append(fill, f)
	}
	return func() {
		_ = syscall.Setrlimit(syscall.RLIMIT_NOFILE, &old)
		for _, f := range fill {
			_ = f.Close()
		}
	}
}
