package checks

import (
	"encoding/json"

	"verif/fw"
	"verif/sys"
)

// C10 — the file store is durable: a restart shows exactly the mail that was there.

var c10Ops = func() []sop {
	o := append([]sop{}, c07Base...)
	o = append(o, sop{Kind: "reopen"}, sop{Kind: "scan"}, sop{Kind: "addfail", MB: 0})
	return o
}()

// c10OpsX: the alphabet plus a restart that lowers the cap to 2 (used by the directed histories)
var c10OpsX = append(append([]sop{}, c10Ops...), sop{Kind: "reopen", Size: 2})

func c10Run(c *fw.Ctx) {
	for _, cap := range []int{0, 2, 1} {
		spec := sys.StoreSpec{Backend: "file", Cap: cap}
		e := &fw.SeqExplorer{
			C: c, NOps: len(c10Ops),
			FullDepth: fw.Pick(c, 3, 4),
			MaxDepth:  fw.Pick(c, 5, 7),
			Run: func(seq []int) (string, bool, bool) {
				// the dedup key also records whether the last op was a reopen, so that
				// "state reached, then reopened" is expanded separately from "state reached"
				k, ext, nt := runStoreSeq(c, spec, c10Ops, seq)
				if len(seq) > 0 && c10Ops[seq[len(seq)-1]].Kind == "reopen" {
					k += "|reopened"
				}
				return k, ext, nt
			},
			Desc: func(seq []int) any { return descStoreSeq(spec, c10Ops, seq) },
		}
		e.Explore()
		// directed: a mailbox that holds more than the cap the store is restarted with (the
		// configuration was changed): the next delivery evicts down to the cap, oldest first; then
		// every operation
		if cap == 0 && c.Shard == 0 {
			lower := len(c10OpsX) - 1
			for _, n := range []int{3, 4, 5} {
				var prefix []int
				for i := 0; i < n; i++ {
					prefix = append(prefix, i%2) // add(m1,b0) / add(m1,b1)
				}
				prefix = append(prefix, lower, 0)
				for x := range c10Ops {
					seq := append(append([]int{}, prefix...), x)
					if !c.Begin(func() any { return descStoreSeq(spec, c10OpsX, seq) }) {
						continue
					}
					if _, _, nt := runStoreSeqFrom(c, spec, c10OpsX, seq, len(prefix)-1); nt {
						c.Nontrivial(1)
					}
				}
			}
		}
	}
}

func c10Replay(c *fw.Ctx, raw json.RawMessage) {
	var cas storeCase
	if err := json.Unmarshal(raw, &cas); err != nil {
		c.T.Fatalf("VERIF-INFRA bad case: %v", err)
	}
	runStoreSeq(c, cas.Spec, c10OpsX, cas.Seq)
}

func init() {
	fw.Register(&fw.Body{ID: "C10", Part: "seq", Run: c10Run, ReplayCase: c10Replay})
}
