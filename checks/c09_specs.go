package checks

import (
	"sort"

	"verif/sys"
)

// Scenario definitions of C09, shared by the controlled-scheduler clause and the free-running
// -race pass.

type c09Op struct {
	Kind string // add remove purge list get seen visitremove
	MB   string
	Ref  string // "init1" (id of the 1st pre-populated message) | "latest" | "nope"
	Size int
}

type c09Spec struct {
	ID      string
	Store   sys.StoreSpec
	Init    []c09Op
	Threads [][]c09Op
	Bound   [2]int // preemption bound quick / thorough
	NoLin   bool   // eviction scenario: invariants only
	LimitB  int64  // byte limit to check in the final state (NoLin scenarios)
}

func c09Boxes(sp c09Spec) []string {
	set := map[string]bool{}
	for _, o := range sp.Init {
		set[o.MB] = true
	}
	for _, t := range sp.Threads {
		for _, o := range t {
			set[o.MB] = true
		}
	}
	var l []string
	for k := range set {
		l = append(l, k)
	}
	sort.Strings(l)
	return l
}

func c09Specs() []c09Spec {
	m1, m2 := storeBoxes[0], storeBoxes[1]
	add := func(mb string) c09Op { return c09Op{Kind: "add", MB: mb} }
	memKB := sys.StoreSpec{Backend: "mem", MaxKB: 64}
	mem := sys.StoreSpec{Backend: "mem"}
	file := sys.StoreSpec{Backend: "file"}
	return []c09Spec{
		{ID: "S2-mem-maxkb-add-purge", Store: memKB, Init: []c09Op{add(m1)},
			Threads: [][]c09Op{{add(m1), {Kind: "list", MB: m1}}, {{Kind: "purge", MB: m1}}}, Bound: [2]int{2, 4}},
		{ID: "S4-mem-add-list-seen", Store: mem, Init: []c09Op{add(m1)},
			Threads: [][]c09Op{{add(m1)}, {{Kind: "list", MB: m1}, {Kind: "get", MB: m1, Ref: "latest"}}, {{Kind: "seen", MB: m1, Ref: "init1"}, {Kind: "remove", MB: m1, Ref: "init1"}}}, Bound: [2]int{2, 3}},
		{ID: "S5-mem-add-add-visitremove", Store: mem, Init: []c09Op{add(m1), add(m2)},
			Threads: [][]c09Op{{add(m1)}, {add(m2)}, {{Kind: "visitremove", MB: m1}}}, Bound: [2]int{2, 3}},
		{ID: "S6-file-add-remove-list", Store: file, Init: []c09Op{add(m1)},
			Threads: [][]c09Op{{add(m1)}, {{Kind: "remove", MB: m1, Ref: "init1"}}, {{Kind: "list", MB: m1}}}, Bound: [2]int{2, 3}},
		{ID: "S7-file-samebucket-add-add-purge", Store: file, Init: []c09Op{add(m1)},
			Threads: [][]c09Op{{add(m1)}, {add(m2)}, {{Kind: "purge", MB: m1}}}, Bound: [2]int{2, 3}},
		{ID: "S8-file-cap1-add-add", Store: sys.StoreSpec{Backend: "file", Cap: 1}, Init: []c09Op{add(m1)},
			Threads: [][]c09Op{{add(m1)}, {add(m1)}, {{Kind: "list", MB: m1}}}, Bound: [2]int{2, 3}},
		{ID: "S17-mem-cap2-add-add-remove", Store: sys.StoreSpec{Backend: "mem", Cap: 2}, Init: []c09Op{add(m1), add(m1)},
			Threads: [][]c09Op{{add(m1)}, {add(m1)}, {{Kind: "remove", MB: m1, Ref: "init2"}, {Kind: "list", MB: m1}}}, Bound: [2]int{2, 3}},
		{ID: "S18-file-seen-remove-list", Store: file, Init: []c09Op{add(m1), add(m1)},
			Threads: [][]c09Op{{{Kind: "seen", MB: m1, Ref: "init1"}}, {{Kind: "remove", MB: m1, Ref: "init2"}}, {{Kind: "list", MB: m1}, {Kind: "get", MB: m1, Ref: "init1"}}}, Bound: [2]int{2, 3}},
		{ID: "S19-file-purge-add-add", Store: file, Init: []c09Op{add(m1)},
			Threads: [][]c09Op{{{Kind: "purge", MB: m1}}, {add(m1)}, {add(m1), {Kind: "list", MB: m1}}}, Bound: [2]int{1, 2}},
		{ID: "S9-file-visit-vs-remove-last", Store: file, Init: []c09Op{add(m1), add(m2)},
			Threads: [][]c09Op{{{Kind: "visitremove", MB: "none"}}, {{Kind: "remove", MB: m1, Ref: "init1"}}, {{Kind: "remove", MB: m2, Ref: "init2"}}}, Bound: [2]int{2, 3}},
		{ID: "S12-file-add-add-list-same-mailbox", Store: file, Init: []c09Op{add(m1)},
			Threads: [][]c09Op{{add(m1)}, {add(m1)}, {{Kind: "list", MB: m1}}}, Bound: [2]int{2, 3}},
		{ID: "S13-mem-add-add-list-same-mailbox", Store: mem, Init: []c09Op{add(m1)},
			Threads: [][]c09Op{{add(m1)}, {add(m1)}, {{Kind: "list", MB: m1}}}, Bound: [2]int{2, 3}},
		{ID: "S14-mem-fresh-mailbox-add-add-list", Store: mem, Init: []c09Op{add(m2)},
			Threads: [][]c09Op{{add(m1)}, {add(m1)}, {{Kind: "list", MB: m1}}}, Bound: [2]int{2, 3}},
		{ID: "S15-file-fresh-mailbox-add-add-get", Store: file, Init: []c09Op{add(m2)},
			Threads: [][]c09Op{{add(m1)}, {add(m1)}, {{Kind: "get", MB: m1, Ref: "latest"}}}, Bound: [2]int{2, 3}},
		{ID: "S11-file-add-getlatest-remove", Store: file, Init: []c09Op{add(m1)},
			Threads: [][]c09Op{{add(m1)}, {{Kind: "get", MB: m1, Ref: "latest"}}, {{Kind: "remove", MB: m1, Ref: "init1"}}}, Bound: [2]int{2, 3}},
		{ID: "S3-mem-cap1-maxkb-add-add", Store: sys.StoreSpec{Backend: "mem", Cap: 1, MaxKB: 1}, Init: []c09Op{{Kind: "add", MB: m1, Size: 400}},
			Threads: [][]c09Op{{{Kind: "add", MB: m1, Size: 400}}, {{Kind: "add", MB: m2, Size: 400}}, {{Kind: "add", MB: m1, Size: 300}}}, Bound: [2]int{1, 2}, NoLin: true, LimitB: 1024},
		// readers of mailboxes in DIFFERENT lock buckets: what they share is store-wide (the pool of
		// buffered readers), no mailbox lock orders them
		{ID: "S23-file-readers-in-different-buckets", Store: file, Init: []c09Op{add(m1), add(m1), add(storeBoxes[2]), add(storeBoxes[2])},
			Threads: [][]c09Op{{{Kind: "list", MB: m1}}, {{Kind: "list", MB: storeBoxes[2]}}, {{Kind: "get", MB: m1, Ref: "latest"}}}, Bound: [2]int{2, 3}},
		// the size limit's victim lives in the mailbox whose cap another delivery is enforcing
		{ID: "S22-mem-cap1-maxkb-size-victim-in-capped-mailbox", Store: sys.StoreSpec{Backend: "mem", Cap: 1, MaxKB: 1}, Init: []c09Op{{Kind: "add", MB: m1, Size: 600}},
			Threads: [][]c09Op{{{Kind: "add", MB: m1, Size: 300}}, {{Kind: "add", MB: m2, Size: 600}}}, Bound: [2]int{2, 3}, NoLin: true, LimitB: 1024},
		// a size-limited store that is nearly full: a removal that has RETURNED has made room, so the
		// delivery that follows it (same thread) fits and evicts nothing, whatever the enforcer
		// goroutine was doing in between
		{ID: "S24-mem-maxkb-remove-then-add-that-fits", Store: sys.StoreSpec{Backend: "mem", MaxKB: 1}, Init: []c09Op{{Kind: "add", MB: m1, Size: 300}, {Kind: "add", MB: m2, Size: 600}},
			Threads: [][]c09Op{{{Kind: "remove", MB: m2, Ref: "init2"}, {Kind: "add", MB: storeBoxes[2], Size: 600}}, {{Kind: "list", MB: m1}}}, Bound: [2]int{2, 3}},
		{ID: "S25-mem-maxkb-purge-then-add-that-fits", Store: sys.StoreSpec{Backend: "mem", MaxKB: 1}, Init: []c09Op{{Kind: "add", MB: m1, Size: 300}, {Kind: "add", MB: m2, Size: 300}, {Kind: "add", MB: m2, Size: 300}},
			Threads: [][]c09Op{{{Kind: "purge", MB: m2}, {Kind: "add", MB: storeBoxes[2], Size: 600}}, {{Kind: "list", MB: m1}}}, Bound: [2]int{2, 3}},
		// nothing but readers: two listings and a get of the same mailbox at the same time (what they
		// share must be shared safely; the free-running race pass runs this one too)
		// the environment fails one opening of the index while a purge runs: the purge may fail, every
		// later operation on the mailbox (same client, other client) must still complete
		{ID: "S27-file-purge-index-open-fails-then-list-vs-add", Store: sys.StoreSpec{Backend: "file"}, Init: []c09Op{add(m1), add(m1)},
			Threads: [][]c09Op{{{Kind: "purge!", MB: m1}, {Kind: "list", MB: m1}}, {add(m1)}}, Bound: [2]int{1, 2}, NoLin: true},
		{ID: "S26-mem-list-list-getlatest", Store: mem, Init: []c09Op{add(m1), add(m1)},
			Threads: [][]c09Op{{{Kind: "list", MB: m1}}, {{Kind: "list", MB: m1}}, {{Kind: "get", MB: m1, Ref: "latest"}}}, Bound: [2]int{2, 3}},
		{ID: "S1-mem-maxkb-add-remove-add", Store: memKB, Init: []c09Op{add(m1)},
			Threads: [][]c09Op{{add(m1)}, {{Kind: "remove", MB: m1, Ref: "init1"}}, {add(m1)}}, Bound: [2]int{2, 3}},
		{ID: "S16-mem-maxkb-fresh-mailbox-add-purge-add", Store: memKB, Init: nil,
			Threads: [][]c09Op{{add(m1)}, {{Kind: "purge", MB: m1}}, {add(m1)}}, Bound: [2]int{2, 3}},
		{ID: "S10-mem-maxkb-add-getlatest-remove", Store: memKB, Init: []c09Op{add(m1)},
			Threads: [][]c09Op{{add(m1)}, {{Kind: "get", MB: m1, Ref: "latest"}}, {{Kind: "remove", MB: m1, Ref: "init1"}}}, Bound: [2]int{2, 3}},
	}
}
