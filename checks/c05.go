package checks

import (
	"encoding/json"
	"fmt"
	"github.com/inbucket/inbucket/v3/pkg/extension"
	"github.com/inbucket/inbucket/v3/pkg/extension/event"
	"os"
	"strings"

	"github.com/inbucket/inbucket/v3/pkg/config"
	"github.com/inbucket/inbucket/v3/pkg/policy"
	"github.com/inbucket/inbucket/v3/pkg/stringutil"

	"verif/fw"
	"verif/model"
	"verif/sys"
)

// C05 — accept, reject and store decisions follow the configured domain policy exactly.

type c05Cfg struct {
	DefaultAccept bool     `json:"da"`
	DefaultStore  bool     `json:"ds"`
	Accept        []string `json:"accept"`
	Reject        []string `json:"reject"`
	Store         []string `json:"store"`
	Discard       []string `json:"discard"`
	RejectOrigin  []string `json:"rejectorigin"`
	MaxRcpt       int      `json:"maxrcpt"`
}

func (c c05Cfg) model() model.Policy {
	return model.Policy{DefaultAccept: c.DefaultAccept, DefaultStore: c.DefaultStore, Accept: c.Accept, Reject: c.Reject,
		Store: c.Store, Discard: c.Discard, RejectOrigin: c.RejectOrigin, MaxRecipients: c.MaxRcpt}
}

// load builds the real configuration through config.Process from the environment, so the
// lower-casing of the lists is inside the loop.
func (c c05Cfg) load() *config.Root {
	for _, kv := range os.Environ() {
		if strings.HasPrefix(kv, "INBUCKET_") {
			_ = os.Unsetenv(kv[:strings.IndexByte(kv, '=')])
		}
	}
	set := func(k string, l []string) {
		if len(l) > 0 {
			_ = os.Setenv(k, strings.Join(l, ","))
		}
	}
	_ = os.Setenv("INBUCKET_SMTP_DEFAULTACCEPT", fmt.Sprint(c.DefaultAccept))
	_ = os.Setenv("INBUCKET_SMTP_DEFAULTSTORE", fmt.Sprint(c.DefaultStore))
	_ = os.Setenv("INBUCKET_SMTP_MAXRECIPIENTS", fmt.Sprint(c.MaxRcpt))
	set("INBUCKET_SMTP_ACCEPTDOMAINS", c.Accept)
	set("INBUCKET_SMTP_REJECTDOMAINS", c.Reject)
	set("INBUCKET_SMTP_STOREDOMAINS", c.Store)
	set("INBUCKET_SMTP_DISCARDDOMAINS", c.Discard)
	set("INBUCKET_SMTP_REJECTORIGINDOMAINS", c.RejectOrigin)
	conf, err := config.Process()
	if err != nil {
		panic("VERIF-INFRA config.Process: " + err.Error())
	}
	return conf
}

func subsets(pool []string, max int) [][]string {
	out := [][]string{nil}
	for i := range pool {
		out = append(out, []string{pool[i]})
	}
	if max >= 2 {
		for i := range pool {
			for j := i + 1; j < len(pool); j++ {
				out = append(out, []string{pool[i], pool[j]})
			}
		}
	}
	return out
}

var c05Domains = []string{"a.test", "A.TEST", "b.test", "B.TEST", "sub.a.test", "c.test", "", "[IPv6:2001:DB8::1]", "[ipv6:2001:db8::1]", "[1.2.3.4]"}
var c05ListPool = []string{"a.test", "B.Test", "sub.a.test", "[IPv6:2001:db8::1]"}
var c05OriginPool = []string{"a.test", "*.test", "?.test", "A.TEST", "a.*", "*", "[IPv6:2001:db8:*]"}

func c05Predicates(c *fw.Ctx, cfg c05Cfg) {
	conf := cfg.load()
	ap := &policy.Addressing{Config: conf}
	mo := cfg.model()
	for _, d := range c05Domains {
		if got, want := ap.ShouldAcceptDomain(d), mo.AcceptRcpt(d); got != want {
			c.Violate("predicate|accept", fmt.Sprintf("ShouldAcceptDomain(%q)=%v, documented rule says %v, config %+v", d, got, want, cfg), cfg)
		}
		if got, want := ap.ShouldStoreDomain(d), mo.StoreRcpt(d); got != want {
			c.Violate("predicate|store", fmt.Sprintf("ShouldStoreDomain(%q)=%v, documented rule says %v, config %+v", d, got, want, cfg), cfg)
		}
		if got, want := ap.ShouldAcceptOriginDomain(d), mo.AcceptOrigin(d); got != want {
			c.Violate("predicate|origin", fmt.Sprintf("ShouldAcceptOriginDomain(%q)=%v, documented rule says %v, config %+v", d, got, want, cfg), cfg)
		}
	}
	c.AddEvals(int64(3*len(c05Domains)) - 1)
}

type c05SessCase struct {
	// ExtAllow: an extension answers every before-RCPT event with "allow"; that overrides the
	// domain accept/reject rule, never the recipient limit and never the store/discard rule
	ExtAllow bool     `json:"ext_allow,omitempty"`
	Cfg      c05Cfg   `json:"cfg"`
	Senders  []string `json:"senders"`
	Rcpts    []string `json:"rcpts"`
	Backend  string   `json:"backend"`
}

// c05Session checks reply classes of MAIL/RCPT, the recipient limit and the stored set.
func c05Session(c *fw.Ctx, cas c05SessCase) (nontrivial bool) {
	conf := cas.Cfg.load()
	smtp := conf.SMTP
	smtp.Domain = "verif.test"
	spec := sys.Spec{Store: sys.StoreSpec{Backend: cas.Backend}, SMTP: smtp, NoHub: true}
	if cas.ExtAllow {
		spec.PreLua = func(h *extension.Host) {
			h.Events.BeforeRcptToAccepted.AddListener("allow-all", func(event.SMTPSession) *event.SMTPResponse {
				return &event.SMTPResponse{Action: event.ActionAllow}
			})
		}
	}
	s := sys.New(spec)
	defer s.Close()
	mo := cas.Cfg.model()
	k := s.DialSMTP()
	d := &sys.SMTPDriver{K: k}
	defer func() { k.Close(); <-k.Done }()
	fail := func(key, detail string) {
		c.Violate("session|"+key, fmt.Sprintf("%s\nconfig %+v\n  %s", detail, cas.Cfg, strings.Join(d.Log, "\n  ")), cas)
	}
	d.Greeting()
	d.Cmd("HELO c.test")
	store := model.NewStore(0, 0)
	for _, sender := range cas.Senders {
		r := d.Cmd("MAIL FROM:<" + sender + ">")
		want := mo.AcceptOrigin(model.DomainOf(sender))
		if (r.Class() == 2) != want {
			fail("mail|class", fmt.Sprintf("MAIL FROM:<%s> answered %s; the reject-origin rule says accept=%v", sender, r.String(), want))
			return
		}
		if r.Class() != 2 {
			continue
		}
		accepted := 0
		for _, rc := range cas.Rcpts {
			r := d.Cmd("RCPT TO:<" + rc + ">")
			domainOK := mo.AcceptRcpt(model.DomainOf(rc)) || cas.ExtAllow
			want := domainOK && accepted < mo.MaxRecipients
			if (r.Class() == 2) != want {
				why := "domain rule"
				if domainOK {
					why = fmt.Sprintf("recipient limit %d with %d already accepted", mo.MaxRecipients, accepted)
				}
				fail("rcpt|class", fmt.Sprintf("RCPT TO:<%s> answered %s; expected accept=%v (%s)", rc, r.String(), want, why))
				return
			}
			if r.Class() == 2 {
				accepted++
			}
		}
		if len(d.Rcpts) > mo.MaxRecipients {
			fail("rcpt|limit", fmt.Sprintf("transaction holds %d recipients, limit %d", len(d.Rcpts), mo.MaxRecipients))
		}
		if len(d.Rcpts) == 0 {
			d.Cmd("RSET")
			continue
		}
		body := "Subject: p\r\n\r\npolicy body from " + sender + "\r\n"
		_, fin := d.Data(body)
		if fin.Class() != 2 {
			fail("data|refused", "message with accepted recipients refused: "+fin.String())
			return
		}
		from, rcpts := d.Delivered()
		var exp []sys.Expect
		for _, a := range rcpts {
			if mo.StoreRcpt(model.DomainOf(a)) {
				exp = append(exp, sys.Expect{Mailbox: model.SimpleMailbox("local", a), From: from, To: rcpts, Subject: "p", Data: body})
			}
		}
		nontrivial = true
		var names []string
		for _, rc := range cas.Rcpts {
			names = append(names, model.SimpleMailbox("local", rc))
		}
		for _, p := range s.CheckDelivery(store, exp, names...) {
			fail(p[0], p[1])
		}
	}
	return
}

func c05Run(c *fw.Ctx) {
	lists := subsets(c05ListPool, fw.Pick(c, 1, 2))
	origins := subsets(c05OriginPool, fw.Pick(c, 1, 2))
	// (i) predicate level, full product
	n := 0
	for _, da := range []bool{true, false} {
		for _, ds := range []bool{true, false} {
			for _, acc := range lists {
				for _, rej := range lists {
					n++
					if !c.Mine(n) {
						continue
					}
					if c.Expired() {
						return
					}
					for _, sto := range lists {
						for _, dis := range lists {
							for _, org := range origins {
								cfg := c05Cfg{da, ds, acc, rej, sto, dis, org, 2}
								if !c.Begin(func() any { return cfg }) {
									continue
								}
								c.Guard("predicate", cfg, func() { c05Predicates(c, cfg) })
								if len(acc)+len(rej)+len(sto)+len(dis)+len(org) > 0 {
									c.Nontrivial(1)
								}
							}
						}
					}
				}
			}
		}
	}
	// (ii) session level
	rcptOrders := [][]string{
		{"u1@a.test", "u2@A.TEST", "u3@b.test", "u4@sub.a.test", "u5@B.test", "u6@[IPv6:2001:DB8::1]"},
		{"u6@[IPv6:2001:DB8::1]", "u5@B.test", "u4@sub.a.test", "u3@b.test", "u2@A.TEST", "u1@a.test"},
		{"u1@a.test", "u1@a.test", "u3@b.test"},
		// one local part in several domains (one mailbox under local naming, one verdict per domain)
		{"u1@a.test", "u1@b.test", "u1@sub.a.test"},
		{"u1@sub.a.test", "u1@b.test", "u1@a.test"},
		// local parts that mean something to other mail systems: the verdict is the domain's
		{"postmaster@a.test", "Postmaster@b.test", "abuse@sub.a.test", "root@B.test", "MAILER-DAEMON@a.test"},
	}
	sl := subsets(c05ListPool, 1)
	for _, da := range []bool{true, false} {
		for _, ds := range []bool{true, false} {
			for _, acc := range sl {
				for _, rej := range sl {
					for _, sto := range sl {
						for _, dis := range sl {
							for _, mr := range []int{1, 2, 3, 0} { // 0: no recipient at all fits
								for oi, order := range rcptOrders {
									n++
									if !c.Mine(n) {
										continue
									}
									if !c.Thorough() && ((oi == 2 && mr != 2) || (oi >= 3 && mr != 3) || (mr == 0 && oi != 0)) {
										continue
									}
									if c.Expired() {
										return
									}
									be := "mem"
									if n%5 == 0 {
										be = "file"
									}
									cas := c05SessCase{Cfg: c05Cfg{da, ds, acc, rej, sto, dis, nil, mr}, Senders: []string{"s@o.test", "t@o.test"}, Rcpts: order, Backend: be}
									if !c.Begin(func() any { return cas }) {
										continue
									}
									var nt bool
									c.Guard("session", cas, func() { nt = c05Session(c, cas) })
									if nt {
										c.Nontrivial(1)
										if c.WantSample() {
											c.Sample(cas)
										}
									}
								}
							}
						}
					}
				}
			}
		}
	}
	// an extension that allows every recipient: the recipient limit and the store rule still hold
	for _, da := range []bool{true, false} {
		for _, rej := range sl {
			for _, dis := range sl {
				for _, mr := range []int{1, 2, 3} {
					for _, order := range rcptOrders {
						n++
						if !c.Mine(n) {
							continue
						}
						cas := c05SessCase{ExtAllow: true, Cfg: c05Cfg{da, true, nil, rej, nil, dis, nil, mr}, Senders: []string{"s@o.test", "t@o.test"}, Rcpts: order, Backend: "mem"}
						if !c.Begin(func() any { return cas }) {
							continue
						}
						var nt bool
						c.Guard("session", cas, func() { nt = c05Session(c, cas) })
						if nt {
							c.Nontrivial(1)
						}
					}
				}
			}
		}
	}
	for _, org := range subsets(c05OriginPool, 2) {
		n++
		if !c.Mine(n) {
			continue
		}
		cas := c05SessCase{Cfg: c05Cfg{true, true, nil, nil, nil, nil, org, 5},
			Senders: []string{"s@a.test", "s@A.TEST", "s@b.test", "s@sub.a.test", "s@c.test", "s@ab.test", "s@a.org", "s@[IPv6:2001:DB8::1]", "s@[1.2.3.4]", ""}, Rcpts: []string{"u1@x.test"}, Backend: "mem"}
		if !c.Begin(func() any { return cas }) {
			continue
		}
		var nt bool
		c.Guard("session", cas, func() { nt = c05Session(c, cas) })
		if nt {
			c.Nontrivial(1)
		}
	}
	// (iii) the wildcard matcher against the recursive reference
	pa, sa := []rune("ab*?"), []rune("ab")
	maxL := 5
	if c.Thorough() {
		pa, sa = []rune("ab*?."), []rune("ab.")
		maxL = 6
	}
	var pats, strs []string
	var gen func(alpha []rune, cur string, out *[]string)
	gen = func(alpha []rune, cur string, out *[]string) {
		*out = append(*out, cur)
		if len([]rune(cur)) == maxL {
			return
		}
		for _, r := range alpha {
			gen(alpha, cur+string(r), out)
		}
	}
	gen(pa, "", &pats)
	gen(sa, "", &strs)
	for pi, p := range pats {
		if !c.Mine(pi) {
			continue
		}
		if c.Expired() {
			return
		}
		if !c.Begin(func() any { return map[string]string{"pattern": p} }) {
			continue
		}
		for _, s := range strs {
			if got, want := stringutil.MatchWithWildcards(p, s), model.WildMatch(p, s); got != want {
				c.Violate("matcher", fmt.Sprintf("MatchWithWildcards(%q,%q)=%v, reference says %v", p, s, got, want), map[string]string{"pattern": p, "s": s})
			}
		}
		c.AddEvals(int64(len(strs)) - 1)
		if strings.ContainsAny(p, "*?") {
			c.Nontrivial(1)
		}
	}
	c.Count("matcher_pairs", int64(len(pats)*len(strs))/int64(c.NShards))
}

func c05Replay(c *fw.Ctx, raw json.RawMessage) {
	var probe map[string]json.RawMessage
	_ = json.Unmarshal(raw, &probe)
	switch {
	case probe["pattern"] != nil:
		var m map[string]string
		_ = json.Unmarshal(raw, &m)
		if got, want := stringutil.MatchWithWildcards(m["pattern"], m["s"]), model.WildMatch(m["pattern"], m["s"]); got != want {
			c.Violate("matcher", fmt.Sprintf("MatchWithWildcards(%q,%q)=%v, reference says %v", m["pattern"], m["s"], got, want), m)
		}
	case probe["cfg"] != nil:
		var cas c05SessCase
		_ = json.Unmarshal(raw, &cas)
		c.Guard("session", cas, func() { c05Session(c, cas) })
	default:
		var cfg c05Cfg
		_ = json.Unmarshal(raw, &cfg)
		c.Guard("predicate", cfg, func() { c05Predicates(c, cfg) })
	}
}

func init() {
	fw.Register(&fw.Body{ID: "C05", Part: "all", Run: c05Run, ReplayCase: c05Replay})
}
