//go:build sched

package checks

import (
	"bufio"
	"context"
	"errors"
	"fmt"
	"net"
	"sort"
	"strings"
	"sync"
	"time"

	"github.com/gorilla/mux"
	"github.com/inbucket/inbucket/v3/pkg/config"
	"github.com/inbucket/inbucket/v3/pkg/extension"
	"github.com/inbucket/inbucket/v3/pkg/server"
	"github.com/inbucket/inbucket/v3/pkg/server/web"
	"github.com/inbucket/inbucket/v3/pkg/storage"
	"github.com/inbucket/inbucket/v3/pkg/storage/mem"
	"github.com/inbucket/inbucket/v3/pkg/vrt/vnet"
	"github.com/inbucket/inbucket/v3/pkg/vrt/vsched"

	"verif/fw"
	"verif/sys"
)

// C19, the assembled server (pkg/server/lifecycle.go): server.FullAssembly builds the services
// the way cmd/inbucket does, Services.Start launches them, and shutdown is requested at every
// point of the start-up - before any service has run, between two services' readiness reports,
// after all of them - followed by main's drain sequence (SMTP Drain, POP3 Drain, scanner Join).
// Over every schedule within the preemption bound:
//   - the drain sequence returns (nothing blocks shutdown);
//   - once the system is quiescent, every listener that was opened is closed: no SMTP, POP3 or
//     web listener is left accepting connections after shutdown was requested;
//   - a client that dials after the drain sequence has returned and the system has gone quiet is
//     not greeted.
//
// The listeners are the in-memory ones of the vnet shim (the accept loops are the real ones).

func c19LifeScenarios(c *fw.Ctx) []schedScenario {
	return []schedScenario{
		c19LifeScenario(c, "G13-assembled-services-shutdown-during-smtp-start-up", "", "smtp"),
		c19LifeScenario(c, "G14-assembled-services-shutdown-during-pop3-start-up", "", "pop3"),
		c19LifeScenario(c, "G15-assembled-services-shutdown-during-web-start-up", "", "web"),
		c19LifeScenario(c, "G16-assembled-services-pop3-fails-to-bind", "pop3", "smtp"),
		c19LifeSessionScenario(c, "G17-assembled-services-smtp-transfer-in-progress", "smtp"),
		c19LifeSessionScenario(c, "G18-assembled-services-pop3-deletion-pending", "pop3"),
	}
}

// c19LifeChildren is the order in which Services.Start launches its goroutines (the scheduler
// names a goroutine after its parent and its rank among the parent's children).
var c19LifeChildren = []string{"hub", "web", "smtp", "pop3", "scanner", "ready-waiter"}

// failBind names the service whose address is in use: its Start reports the failure through
// Notify, and main requests shutdown because of it (no signal is involved).
//
// focus names the service whose start-up is interleaved with the shutdown request in every
// possible way, together with the goroutine that waits for the readiness reports, the signal
// and main's drain sequence.  The other services' goroutines, the hub and the scanner run
// eagerly (each runs as soon as it can, to its next blocking point): their own races with
// shutdown are the subject of G1-G12.
func c19LifeScenario(c *fw.Ctx, id, failBind, focus string) schedScenario {
	run := func(cfg vsched.Config) (res schedResult) {
		var e *vsched.Exec
		var mu sync.Mutex
		opened := map[string]*vnet.MemListener{}
		var finalProbs [][2]string
		drained, readyFired, cancelled := false, false, false
		var assembleErr error
		atCancel := ""
		cfg.Eager = []string{"R"} // what FullAssembly itself starts (the failure-notification merger)
		for i, n := range c19LifeChildren {
			if n != focus && n != "ready-waiter" {
				cfg.Eager = append(cfg.Eager, fmt.Sprintf("T0.%d", i+1))
			}
		}
		leaked := inBubble(c.T, func() {
			e = vsched.Run(cfg, func() (func(), []vsched.Thread, func()) {
				storage.Constructors["memory"] = mem.New
				web.Router = mux.NewRouter().UseEncodedPath()
				conf := &config.Root{
					MailboxNaming: config.LocalNaming,
					SMTP: config.SMTP{Addr: "127.0.0.1:2500", Domain: "verif.test", MaxRecipients: 200, MaxMessageBytes: 10240000,
						DefaultAccept: true, DefaultStore: true, Timeout: 300 * time.Second},
					POP3:    config.POP3{Addr: "127.0.0.1:1100", Domain: "verif.test", Timeout: 600 * time.Second},
					Web:     config.Web{Addr: "127.0.0.1:9000", UIDir: "/nonexistent", MonitorHistory: 5},
					Storage: config.Storage{Type: "memory", RetentionPeriod: 24 * time.Hour, RetentionSleep: 0},
				}
				svcOf := func(addr string) string {
					switch {
					case strings.HasSuffix(addr, ":2500"):
						return "smtp"
					case strings.HasSuffix(addr, ":1100"):
						return "pop3"
					}
					return "web"
				}
				failing := failBind
				vnet.FakeErr = func(addr string) error {
					if svcOf(addr) == failing {
						return errors.New("listen tcp4 " + addr + ": bind: address already in use")
					}
					return nil
				}
				vnet.Fake = func(addr string) net.Listener {
					name := svcOf(addr)
					l := vnet.NewMemListener()
					mu.Lock()
					opened[name] = l
					mu.Unlock()
					return l
				}
				svcs, err := server.FullAssembly(conf)
				if err != nil {
					assembleErr = err
					return nil, nil, func() {}
				}
				ctx, cancel := context.WithCancel(context.Background())
				requested := make(chan struct{})
				ths := []vsched.Thread{
					{Name: "main-start", F: func() {
						svcs.Start(ctx, func() {
							mu.Lock()
							readyFired = true
							mu.Unlock()
						})
					}},
					{Name: "signal", F: func() {
						if failBind != "" {
							// main's loop: a failed service makes it shut everything down
							<-svcs.Notify()
						}
						vsched.Point("signal: about to request shutdown")
						mu.Lock()
						cancelled = true
						atCancel = fmt.Sprintf("listening=%d ready=%v", len(opened), readyFired)
						mu.Unlock()
						cancel()
						close(requested)
					}},
					{Name: "main-shutdown", F: func() {
						<-requested
						svcs.SMTPServer.Drain()
						svcs.POP3Server.Drain()
						svcs.RetentionScanner.Join()
						mu.Lock()
						drained = true
						mu.Unlock()
					}},
				}
				cleanup := func() {
					// the system is quiescent here: nothing is enabled any more
					safely(func() {
						mu.Lock()
						defer mu.Unlock()
						var names []string
						for n := range opened {
							names = append(names, n)
						}
						sort.Strings(names)
						for _, n := range names {
							if cancelled && !opened[n].IsClosed() {
								finalProbs = append(finalProbs, [2]string{"listener-left-open-after-shutdown|" + n,
									fmt.Sprintf("shutdown was requested and main's drain sequence returned=%v, the system has gone quiet, yet the %s listener opened by Services.Start is still accepting connections (all services reported ready=%v)", drained, n, readyFired)})
							}
						}
					})
					cancel()
					mu.Lock()
					for _, l := range opened {
						_ = l.Close()
					}
					mu.Unlock()
					if failBind == "" {
						// the goroutine that merges the services' failure notifications has nothing
						// that ends it (in the process it lives until exit): a failing bind releases it
						failing = "pop3"
						svcs.POP3Server.Start(ctx, func() {})
					}
				}
				return nil, ths, cleanup
			})
			vnet.Fake, vnet.FakeErr = nil, nil
		})
		if assembleErr != nil {
			res.Infra = "FullAssembly: " + assembleErr.Error()
			return res
		}
		if leaked != "" && (e == nil || (len(e.Panics) == 0 && !e.Deadlock && len(finalProbs) == 0)) {
			// (a service goroutine that stays blocked for good next to a listener it never closed
			// is part of that finding, not a fault of the harness)
			res.Infra = "bubble: " + leaked
			return res
		}
		res.Exec = e
		res.Probs = append(res.Probs, stdProbs(e)...)
		for i := range res.Probs {
			if strings.HasPrefix(res.Probs[i][0], "deadlock|") {
				res.Probs[i][0] = "shutdown-blocks|" + c19BlockClass(e.Blocked)
				res.Probs[i][1] = "the assembled server's shutdown does not complete: these never return: " + strings.Join(e.Blocked, ", ")
			}
		}
		if len(res.Probs) == 0 {
			res.Probs = append(res.Probs, finalProbs...)
		}
		var names []string
		for n := range opened {
			names = append(names, n)
		}
		sort.Strings(names)
		res.Outcome = fmt.Sprintf("at-shutdown-request[%s] finally[opened=%v ready=%v drained=%v]", atCancel, names, readyFired, drained)
		return res
	}
	return schedScenario{ID: id, Bound: fw.Pick(c, 1, 2), Run: run}
}

// c19LifeSessionScenario - the assembled services (memory store with a size limit, so that the
// store has a background goroutine of its own) are up and a session is in the middle of its
// dialogue - an SMTP transfer after 354, or a POP3 session with one deletion pending - when
// shutdown is requested at any point of the rest of the dialogue, followed by main's drain
// sequence.  The session must complete (250 and the message stored / the deletion applied), the
// drain calls return, and only after the session has ended.  Explored: the session's server
// side, the client, the signal and main; everything else (the other services, hub, scanner,
// the store's own goroutine) runs eagerly.
func c19LifeSessionScenario(c *fw.Ctx, id, proto string) schedScenario {
	run := func(cfg vsched.Config) (res schedResult) {
		var e *vsched.Exec
		var mu sync.Mutex
		opened := map[string]*vnet.MemListener{}
		var finalProbs [][2]string
		var assembleErr error
		var replies []string
		broke := ""
		var completedAt, drainedAt, requestedAt int64 = -1, -1, -1
		leftAtDrain := -1
		var store storage.Store
		// Services.Start runs in the initialisation phase: its goroutines are children of "I"
		cfg.Eager = []string{"R"}
		for i, n := range c19LifeChildren {
			if n != proto {
				cfg.Eager = append(cfg.Eager, fmt.Sprintf("I.%d", i+1))
			}
		}
		leaked := inBubble(c.T, func() {
			e = vsched.Run(cfg, func() (func(), []vsched.Thread, func()) {
				storage.Constructors["memory"] = func(cf config.Storage, eh *extension.Host) (storage.Store, error) {
					st, err := mem.New(cf, eh)
					store = st
					return st, err
				}
				web.Router = mux.NewRouter().UseEncodedPath()
				conf := &config.Root{
					MailboxNaming: config.LocalNaming,
					SMTP: config.SMTP{Addr: "127.0.0.1:2500", Domain: "verif.test", MaxRecipients: 200, MaxMessageBytes: 10240000,
						DefaultAccept: true, DefaultStore: true, Timeout: 300 * time.Second},
					POP3: config.POP3{Addr: "127.0.0.1:1100", Domain: "verif.test", Timeout: 600 * time.Second},
					Web:  config.Web{Addr: "127.0.0.1:9000", UIDir: "/nonexistent", MonitorHistory: 5},
					Storage: config.Storage{Type: "memory", RetentionPeriod: 24 * time.Hour, RetentionSleep: 0,
						Params: map[string]string{"maxkb": "100"}},
				}
				vnet.FakeErr = nil
				vnet.Fake = func(addr string) net.Listener {
					name := "web"
					switch {
					case strings.HasSuffix(addr, ":2500"):
						name = "smtp"
					case strings.HasSuffix(addr, ":1100"):
						name = "pop3"
					}
					l := vnet.NewMemListener()
					mu.Lock()
					opened[name] = l
					mu.Unlock()
					return l
				}
				svcs, err := server.FullAssembly(conf)
				if err != nil {
					assembleErr = err
					return nil, nil, func() {}
				}
				ctx, cancel := context.WithCancel(context.Background())
				requested := make(chan struct{})
				ready := make(chan struct{})
				var conn net.Conn
				var rd *bufio.Reader
				say := func(line string) bool {
					if _, err := fmt.Fprintf(conn, "%s\r\n", line); err != nil {
						broke = "write failed before " + strings.Fields(line)[0]
						return false
					}
					l, err := rd.ReadString('\n')
					if err != nil {
						broke = "connection closed instead of a reply to " + strings.Fields(line)[0]
						return false
					}
					replies = append(replies, strings.TrimSpace(l))
					return true
				}
				var prelude, rest []string
				if proto == "smtp" {
					prelude = []string{"HELO c", "MAIL FROM:<s@o.test>", "RCPT TO:<r@x.test>", "DATA"}
					rest = []string{"Subject: g\r\n\r\nbody\r\n.", "QUIT"}
				} else {
					prelude = []string{"USER u", "PASS p", "DELE 1"}
					rest = []string{"QUIT"}
				}
				preludeOK := false
				init := func() {
					if store != nil {
						_, _ = store.AddMessage(sys.Delivery("u", "f@x.test", []string{"u@x.test"}, "old", "Subject: old\r\n\r\nold\r\n", time.Now()))
					}
					svcs.Start(ctx, func() { close(ready) })
					<-ready
					var err error
					conn, err = opened[proto].Dial()
					if err != nil {
						broke = "dial refused before any shutdown request"
						return
					}
					rd = bufio.NewReader(conn)
					l, err := rd.ReadString('\n')
					if err != nil {
						broke = "no greeting"
						return
					}
					replies = append(replies, strings.TrimSpace(l))
					for _, line := range prelude {
						if !say(line) {
							return
						}
					}
					preludeOK = true
				}
				ths := []vsched.Thread{
					{Name: "client-rest", F: func() {
						if !preludeOK {
							return
						}
						defer conn.Close()
						for _, line := range rest {
							vsched.Point("client: about to send " + strings.Fields(line)[0])
							if !say(line) {
								return
							}
						}
						mu.Lock()
						completedAt = vsched.StepNo()
						mu.Unlock()
					}},
					{Name: "signal", F: func() {
						vsched.Point("signal: about to request shutdown")
						mu.Lock()
						requestedAt = vsched.StepNo()
						mu.Unlock()
						cancel()
						close(requested)
					}},
					{Name: "main-shutdown", F: func() {
						<-requested
						svcs.SMTPServer.Drain()
						svcs.POP3Server.Drain()
						svcs.RetentionScanner.Join()
						mu.Lock()
						drainedAt = vsched.StepNo()
						mu.Unlock()
						if proto == "pop3" {
							ms, _ := store.GetMessages("u")
							mu.Lock()
							leftAtDrain = len(ms)
							mu.Unlock()
						}
					}},
				}
				cleanup := func() {
					safely(func() {
						mu.Lock()
						defer mu.Unlock()
						if !preludeOK {
							finalProbs = append(finalProbs, [2]string{"session-refused-before-shutdown", "before any shutdown request: " + broke + fmt.Sprintf("; replies %v", replies)})
							return
						}
						if completedAt < 0 {
							finalProbs = append(finalProbs, [2]string{"open-session-cut|" + proto, fmt.Sprintf("the %s session was in the middle of its dialogue when shutdown was requested, and did not complete it: %s; replies so far %v", proto, broke, replies)})
							return
						}
						if proto == "smtp" {
							ms, _ := store.GetMessages("r")
							n := len(replies)
							if n != 7 || !strings.HasPrefix(replies[5], "250") || !strings.HasPrefix(replies[6], "221") || len(ms) != 1 {
								finalProbs = append(finalProbs, [2]string{"in-flight-mail-lost", fmt.Sprintf("the message transfer was in progress during shutdown: replies %v, mailbox r holds %d messages", replies, len(ms))})
							}
						} else {
							ms, _ := store.GetMessages("u")
							n := len(replies)
							if n != 5 || !strings.HasPrefix(replies[4], "+OK") || len(ms) != 0 {
								finalProbs = append(finalProbs, [2]string{"pop3-deletes-not-applied", fmt.Sprintf("message 1 was marked and QUIT sent during shutdown: replies %v, mailbox u still holds %d messages", replies, len(ms))})
							} else if leftAtDrain > 0 {
								finalProbs = append(finalProbs, [2]string{"pop3-deletes-pending-at-drain-return", fmt.Sprintf("when main's drain sequence returned, mailbox u still held %d message(s): the pending deletion was applied only afterwards", leftAtDrain)})
							}
						}
						if drainedAt >= 0 && drainedAt < completedAt {
							finalProbs = append(finalProbs, [2]string{"drain-returned-early|" + proto, fmt.Sprintf("main's drain sequence returned at step %d while the %s session was still in its dialogue (completed at step %d)", drainedAt, proto, completedAt)})
						}
						for n, l := range opened {
							if !l.IsClosed() {
								finalProbs = append(finalProbs, [2]string{"listener-left-open-after-shutdown|" + n, "the system has gone quiet after the shutdown request and the " + n + " listener is still open"})
							}
						}
					})
					cancel()
					if conn != nil {
						_ = conn.Close()
					}
					mu.Lock()
					for _, l := range opened {
						_ = l.Close()
					}
					mu.Unlock()
					// releases the goroutine that merges the failure notifications (see G13)
					vnet.FakeErr = func(string) error { return errors.New("bind: address already in use") }
					svcs.POP3Server.Start(ctx, func() {})
					if ms, ok := store.(*mem.Store); ok {
						ms.VerifStop()
					}
				}
				return init, ths, cleanup
			})
			vnet.Fake, vnet.FakeErr = nil, nil
		})
		if assembleErr != nil {
			res.Infra = "FullAssembly: " + assembleErr.Error()
			return res
		}
		if leaked != "" && (e == nil || (len(e.Panics) == 0 && !e.Deadlock && len(finalProbs) == 0)) {
			res.Infra = "bubble: " + leaked
			return res
		}
		res.Exec = e
		res.Probs = append(res.Probs, stdProbs(e)...)
		for i := range res.Probs {
			if strings.HasPrefix(res.Probs[i][0], "deadlock|") {
				res.Probs[i][0] = "shutdown-blocks|" + c19BlockClass(e.Blocked)
				res.Probs[i][1] = fmt.Sprintf("the assembled server's shutdown does not complete: these never return: %s (client replies so far %v)", strings.Join(e.Blocked, ", "), replies)
			}
		}
		if len(res.Probs) == 0 {
			res.Probs = append(res.Probs, finalProbs...)
		}
		res.Outcome = fmt.Sprintf("requested-before-completion=%v drained-after-completion=%v replies=%d", requestedAt >= 0 && (completedAt < 0 || requestedAt < completedAt), drainedAt >= completedAt, len(replies))
		return res
	}
	return schedScenario{ID: id, Bound: fw.Pick(c, 1, 2), Run: run}
}
