//go:build go1.25

package checks

import (
	"bufio"
	"crypto/tls"
	"encoding/json"
	"fmt"
	"net"
	"strings"

	"verif/fw"
	"verif/model"
	"verif/sys"
)

// C03, STARTTLS clause: the same sequencing rules hold across the upgrade of a connection to
// TLS.  Every dialogue is: a prefix of commands in the clear, STARTTLS and a real TLS 1.2
// handshake over the in-memory connection, a suffix of commands inside TLS.  RFC 3207: the
// upgrade discards what the session knew (inbucket asks for a new greeting), so a message is
// delivered only to recipients accepted since the most recent MAIL *inside* TLS, MAIL needs a new
// HELO/EHLO, a second STARTTLS is refused, and bytes that arrived in the clear together with the
// STARTTLS line are never executed as commands of the protected session.
//
// The client does blocking I/O inside a testing/synctest bubble: a reply that never comes is a
// deadlock of the bubble, reported as a wedge.

var c03TLSPrefix = [][]string{{}, {"EHLO p"}, {"EHLO p", "MAIL FROM:<p@x.test>"}, {"EHLO p", "MAIL FROM:<p@x.test>", "RCPT TO:<r2@x.test>"}}

var c03TLSSigma = []string{"EHLO t", "MAIL FROM:<a@x.test>", "RCPT TO:<r1@x.test>", "!unit", "STARTTLS", "NOOP", "RSET"}

type c03TLSCase struct {
	Prefix []string `json:"prefix"`
	Inject string   `json:"inject,omitempty"` // sent in the clear in the same write as STARTTLS
	Suffix []string `json:"suffix"`
}

func c03TLSExec(c *fw.Ctx, cas c03TLSCase) (nontrivial bool) {
	var log []string
	failed := false
	fail := func(key, detail string) {
		failed = true
		c.Violate("tls|"+key, detail+"\ndialogue:\n  "+strings.Join(log, "\n  "), cas)
	}
	leaked := sys.InBubble(c.T, func() {
		smtp := sys.DefaultSMTP()
		s := sys.New(sys.Spec{Store: sys.StoreSpec{Backend: "mem"}, SMTP: smtp, NoHub: true, SMTPTLS: true})
		defer s.Close()
		raw, done := s.DialSMTPRaw()
		var conn net.Conn = raw
		rd := bufio.NewReader(conn)
		defer func() { _ = conn.Close(); <-done }()
		readReply := func() (code int, ok bool) {
			for {
				l, err := rd.ReadString('\n')
				if err != nil {
					log = append(log, "   (connection closed)")
					return 0, false
				}
				log = append(log, "S: "+strings.TrimSpace(l))
				if len(l) < 4 {
					return 0, false
				}
				if l[3] == '-' {
					continue
				}
				fmt.Sscanf(l[:3], "%d", &code)
				return code, true
			}
		}
		cmd := func(line string) (int, bool) {
			log = append(log, "C: "+line)
			if _, err := conn.Write([]byte(line + "\r\n")); err != nil {
				log = append(log, "   (write failed)")
				return 0, false
			}
			return readReply()
		}
		if code, ok := readReply(); !ok || code != 220 {
			fail("greeting", "no 220 greeting")
			return
		}
		d := &sys.SMTPDriver{}
		mo := model.NewStore(0, 0)
		var expect []sys.Expect
		fold := func(line string, code int) {
			d.Fold(line, sys.Reply{Code: code, OK: true})
		}
		for _, l := range cas.Prefix {
			code, ok := cmd(l)
			if !ok {
				fail("reply|missing", "no reply to "+l+" before the upgrade")
				return
			}
			fold(l, code)
		}
		// STARTTLS, possibly with more bytes in the same write
		log = append(log, "C: STARTTLS"+map[bool]string{true: "   [same write: " + cas.Inject + "]"}[cas.Inject != ""])
		wire := "STARTTLS\r\n"
		if cas.Inject != "" {
			wire += cas.Inject + "\r\n"
		}
		if _, err := conn.Write([]byte(wire)); err != nil {
			fail("wedge|not-reading", "server did not read the STARTTLS line")
			return
		}
		code, ok := readReply()
		if !ok {
			fail("reply|missing", "no reply to STARTTLS")
			return
		}
		if code != 220 {
			if !d.Greeted || d.Open {
				return // STARTTLS before EHLO or inside a transaction: refusing is fine, nothing more to see
			}
			fail("starttls-refused", fmt.Sprintf("STARTTLS is offered (TLS configured) but was answered %d", code))
			return
		}
		tc := tls.Client(conn, &tls.Config{InsecureSkipVerify: true, MaxVersion: tls.VersionTLS12})
		if err := tc.Handshake(); err != nil {
			fail("handshake", "the server answered 220 to STARTTLS but the TLS handshake failed: "+err.Error())
			return
		}
		log = append(log, "   [TLS established]")
		conn, rd = tc, bufio.NewReader(tc)
		// the upgrade discards the session's knowledge
		*d = sys.SMTPDriver{}
		tlsDone := true
		for si, l := range cas.Suffix {
			last := si == len(cas.Suffix)-1
			if l == "!unit" {
				code, ok := cmd("DATA")
				if !ok {
					fail("reply|missing", "no reply to DATA inside TLS")
					return
				}
				if code == 354 {
					if len(d.Rcpts) == 0 {
						fail("sequence|data-without-recipient", "DATA was accepted inside TLS although no recipient has been accepted since the upgrade")
						return
					}
					code, ok = cmd("Subject: s\r\n\r\nbody\r\n.")
					if !ok {
						fail("reply|missing", "no reply after the final dot inside TLS")
						return
					}
					if code/100 == 2 {
						from, rcpts := d.Delivered()
						for _, a := range rcpts {
							expect = append(expect, sys.Expect{Mailbox: model.SimpleMailbox("local", a), From: from, To: rcpts, Subject: "s", Data: "Subject: s\r\n\r\nbody\r\n"})
						}
						nontrivial = nontrivial || last
					}
				}
				continue
			}
			code, ok := cmd(l)
			if !ok {
				fail("reply|missing", fmt.Sprintf("no reply to %q inside TLS", l))
				return
			}
			verb := strings.ToUpper(strings.Fields(l)[0])
			switch {
			case verb == "STARTTLS" && code == 220 && tlsDone:
				fail("second-starttls-accepted", "STARTTLS was answered 220 inside an established TLS session")
				return
			case verb == "MAIL" && code/100 == 2 && !d.Greeted:
				fail("sequence|mail-before-greeting", "after the upgrade MAIL was accepted without a new HELO/EHLO (the upgrade discards the earlier greeting)")
				return
			case verb == "RCPT" && code/100 == 2 && !d.Open:
				fail("sequence|rcpt-outside-transaction", "RCPT was accepted inside TLS although no MAIL has been accepted since the upgrade (a MAIL sent in the clear does not count)")
				return
			}
			fold(l, code)
			if code/100 == 2 && last && (verb == "MAIL" || verb == "RCPT" || verb == "EHLO") {
				nontrivial = true
			}
		}
		_, _ = cmd("QUIT")
		_ = conn.Close()
		<-done
		for _, p := range s.CheckDelivery(mo, expect, "r1", "r2") {
			fail(p[0], p[1])
		}
	})
	if leaked != "" && !failed {
		c.Violate("tls|wedge|blocked", "the dialogue did not run to its end: "+leaked+"\ndialogue so far:\n  "+strings.Join(log, "\n  "), cas)
	}
	return nontrivial
}

func c03TLSRun(c *fw.Ctx) {
	depth := fw.Pick(c, 3, 4)
	n := 0
	for _, pre := range c03TLSPrefix {
		for _, inj := range []string{"", "MAIL FROM:<inj@x.test>", "EHLO inj"} {
			var rec func(cur []string)
			rec = func(cur []string) {
				n++
				if c.Mine(n) && !c.Expired() {
					cas := c03TLSCase{Prefix: pre, Inject: inj, Suffix: append([]string{}, cur...)}
					if c.Begin(func() any { return cas }) {
						var nt bool
						c.Guard("tls", cas, func() { nt = c03TLSExec(c, cas) })
						if nt {
							c.Nontrivial(1)
							if c.WantSample() {
								c.Sample(cas)
							}
						}
					}
				}
				if len(cur) == depth {
					return
				}
				for _, t := range c03TLSSigma {
					rec(append(append([]string{}, cur...), t))
				}
			}
			rec(nil)
		}
	}
}

func c03TLSReplay(c *fw.Ctx, raw json.RawMessage) {
	var cas c03TLSCase
	if err := json.Unmarshal(raw, &cas); err != nil {
		c.T.Fatalf("VERIF-INFRA bad case: %v", err)
	}
	c.Guard("tls", cas, func() { c03TLSExec(c, cas) })
}

func init() {
	fw.Register(&fw.Body{ID: "C03", Part: "tls", Run: c03TLSRun, ReplayCase: c03TLSReplay})
}
