package checks

import (
	"testing"

	"verif/fw"
	"verif/sys"
)

// TestWorker is the single entry point of the checks binaries; the runner selects the clause
// through the environment (see fw.WorkerMain).
func TestWorker(t *testing.T) {
	defer sys.CleanScratch()
	fw.WorkerMain(t)
}
