//go:build go1.25

package checks

import (
	"encoding/json"
	"fmt"
	"strconv"
	"strings"
	"time"

	"verif/fw"
	"verif/model"
	"verif/sys"
)

// C13 — a POP3 session is a stable snapshot whose deletions commit only on QUIT.

// c13Sigma is the full alphabet; the quick tier uses c13Quick (indices into it), which drops the
// message numbers 3, -1 and 4294967297 and half of the TOP variants.
var c13Sigma = func() []string {
	s := []string{"USER u", "USER", "PASS p", "PASS", "APOP u d", "APOP u", "STAT", "STAT x", "LIST", "UIDL", "RSET", "NOOP", "QUIT", "CAPA", "XY", "", " ", "\t "}
	for _, n := range []string{"1", "2", "0", "99", "x", "3", "-1", "4294967297"} {
		s = append(s, "LIST "+n, "UIDL "+n, "DELE "+n, "RETR "+n)
	}
	s = append(s, "TOP 1 0", "TOP 1 1", "TOP 2 1", "TOP 1 -1", "TOP 1 x", "TOP 0 1", "TOP 99 1", "TOP x 1")
	s = append(s, "!deliver", "!extdel 1", "!extdel 2")
	// the client hangs up in the middle of a multi-line response (after its status line)
	s = append(s, "RETR 2 !hangup", "LIST !hangup")
	// QUIT, and the client is gone before the answer can be written: QUIT was issued all the same
	s = append(s, "QUIT !noread")
	// the client falls silent until the server's idle timeout (600 s of the bubble's clock) ends
	// the session: that is no QUIT, nothing is removed
	s = append(s, "!idle")
	// STLS (refused here: TLS is not configured) - also twice in a row
	s = append(s, "STLS")
	// a login whose spelling differs from the mailbox name it maps to (upper case, +tag, domain)
	s = append(s, "USER U+tag@x.test")
	// one over-long command line whose bytes from a reader-buffer boundary on read like a command
	// of their own: it is ONE line, gets one reply, and deletes nothing
	s = append(s, "NOOP"+strings.Repeat(" ", 4096-4)+"DELE 2", "NOOP"+strings.Repeat(" ", 256-4)+"QUIT")
	return s
}()

var c13Quick = func() []int {
	var idx []int
	for i, l := range c13Sigma {
		f := strings.Fields(l)
		if len(f) >= 2 && (f[1] == "3" || f[1] == "-1" || f[1] == "4294967297") && !strings.HasPrefix(l, "!") {
			continue
		}
		if l == "TOP 1 x" || l == "TOP 99 1" || l == "TOP x 1" || l == "TOP 1 0" || l == "USER U+tag@x.test" || l == "\t " {
			continue // (the non-canonical login is the prelude of the logged-in search in both tiers)
		}
		idx = append(idx, i)
	}
	return idx
}()

var c13Bodies = []string{
	"Subject: one\r\n\r\nline1\r\nline2\r\n",
	"Subject: two\r\nX-Dot: .\r\n\r\n.\r\n..x\r\n.y\r\nend\r\n",
	"Subject: three\n\nabc",
}

type c13Case struct {
	Backend string   `json:"backend"`
	NMsgs   int      `json:"nmsgs"`
	Seq     []int    `json:"seq"`
	Lines   []string `json:"lines,omitempty"`
}

func c13Desc(be string, n int, seq []int) c13Case {
	cas := c13Case{Backend: be, NMsgs: n, Seq: append([]int{}, seq...)}
	for _, i := range seq {
		l := c13Sigma[i]
		if len(l) > 80 {
			l = fmt.Sprintf("%s…(%d bytes)…%s", l[:8], len(l), l[len(l)-8:])
		}
		cas.Lines = append(cas.Lines, l)
	}
	return cas
}

type popReply struct {
	OK     bool // +OK
	Status string
	Body   []string // multi-line payload lines (raw, incl. CRLF), without the terminator
	Well   bool
	Why    string
	Unterm bool
}

func popMulti(cmd string, args []string) bool {
	switch cmd {
	case "LIST", "UIDL":
		return len(args) == 0
	case "RETR", "TOP", "CAPA":
		return true
	}
	return false
}

func c13Read(k *sys.Conn, multi bool) popReply {
	var r popReply
	l, ok := k.ReadLine()
	if !ok {
		r.Why = fmt.Sprintf("no reply (partial %q)", l)
		return r
	}
	r.Status = l
	if !strings.HasSuffix(l, "\r\n") {
		r.Why = fmt.Sprintf("status line %q does not end in CRLF", l)
		return r
	}
	switch {
	case strings.HasPrefix(l, "+OK"):
		r.OK = true
	case strings.HasPrefix(l, "-ERR"):
	default:
		r.Why = fmt.Sprintf("status line %q is neither +OK nor -ERR", l)
		return r
	}
	if r.OK && multi {
		for {
			l, ok := k.ReadLine()
			if !ok {
				r.Unterm = true
				r.Why = fmt.Sprintf("multi-line response not terminated by a '.' line (last partial %q)", l)
				return r
			}
			if l == ".\r\n" {
				break
			}
			r.Body = append(r.Body, l)
		}
	}
	r.Well = true
	return r
}

func unstuff(lines []string) string {
	var b strings.Builder
	for _, l := range lines {
		if strings.HasPrefix(l, ".") {
			l = l[1:]
		}
		b.WriteString(l)
	}
	return b.String()
}

// c13Exec runs one POP3 command sequence against a mailbox holding nmsgs messages.
func c13Exec(c *fw.Ctx, be string, nmsgs int, seq []int, checkAll bool) (key string, extend, nontrivial bool) {
	cas := c13Desc(be, nmsgs, seq)
	extend = true
	leaked := sys.InBubble(c.T, func() {
		s := sys.New(sys.Spec{Store: sys.StoreSpec{Backend: be}, SMTP: sys.DefaultSMTP(), NoHub: true})
		defer s.Close()
		st := s.StoreH.Store
		mo := model.NewStore(0, 0)
		var log []string
		fail := func(key, detail string) {
			c.Violate(be+"|"+key, detail+"\nmailbox holds "+strconv.Itoa(nmsgs)+" messages; dialogue:\n  "+strings.Join(log, "\n  "), cas)
			extend = false
		}
		clock := 0
		deliver := func(body string) {
			clock++
			date := time.Unix(1700000000+int64(clock)*3600, 0)
			id, err := st.AddMessage(sys.Delivery("u", "f@x.test", []string{"u@x.test"}, "s"+strconv.Itoa(clock), body, date))
			if err != nil {
				panic("VERIF-INFRA AddMessage: " + err.Error())
			}
			mo.Add(&model.Msg{ID: id, Mailbox: "u", From: "f@x.test", To: []string{"u@x.test"}, Subject: "s" + strconv.Itoa(clock), Body: body, Size: int64(len(body)), DateNS: date.UnixNano()})
		}
		for i := 0; i < nmsgs; i++ {
			deliver(c13Bodies[i])
		}
		k := s.DialPOP3()
		k.Bubble = true
		g := c13Read(k, false)
		log = append(log, "S: "+strings.TrimSpace(g.Status))
		if !g.Well || !g.OK {
			fail("greeting", "no +OK greeting: "+g.Why)
		}
		// model
		user := ""
		inTxn := false
		var snap []*model.Msg
		var marked []bool
		extGone := map[int]bool{}
		ended := false
		quitInTxn := false
		unmarkedStat := func() (int, int64) {
			n, sz := 0, int64(0)
			for i, m := range snap {
				if !marked[i] {
					n++
					sz += m.Size
				}
			}
			return n, sz
		}
	outer:
		for si, oi := range seq {
			last := si == len(seq)-1 || checkAll
			line := c13Sigma[oi]
			if strings.HasPrefix(line, "!") && line != "!idle" {
				switch {
				case line == "!deliver":
					deliver("Subject: late\r\n\r\nlate arrival\r\n")
					log = append(log, "   [external delivery to u]")
				default:
					j, _ := strconv.Atoi(strings.Fields(line)[1])
					l := mo.Boxes["u"]
					// delete the j-th message of the *initial* content, if still there
					var tgt *model.Msg
					for _, m := range l {
						if m.Ord == j {
							tgt = m
						}
					}
					if tgt != nil {
						if err := st.RemoveMessage("u", tgt.ID); err != nil {
							fail("extdel-error", "external RemoveMessage failed: "+err.Error())
							break outer
						}
						mo.Remove("u", tgt)
						extGone[j] = true
						log = append(log, fmt.Sprintf("   [external delete of message %d]", j))
						if last {
							nontrivial = true
						}
					}
				}
				continue
			}
			if line == "!idle" {
				log = append(log, "C: (silent for 601 s)")
				time.Sleep(601 * time.Second)
				if p := k.Pending(); p != "" {
					log = append(log, "S: "+strings.TrimSpace(p))
				}
				if !k.Ended() {
					fail("idle|session-survives-timeout", "after 601 s of silence the session is still open (idle timeout 600 s)")
					break
				}
				if inTxn && last {
					nontrivial = true
				}
				ended = true // without QUIT: nothing may be removed
				break
			}
			if line == "QUIT !noread" {
				log = append(log, "C: QUIT   [and hangs up without reading the answer]")
				_ = k.SendAndVanish("QUIT")
				ended = true
				if inTxn {
					quitInTxn = true
					if last {
						nontrivial = true
					}
				}
				break
			}
			if cl, ok := strings.CutSuffix(line, " !hangup"); ok {
				log = append(log, "C: "+cl+"   [and hangs up after the first line of the response]")
				if err := k.Send(cl); err == nil {
					l, _ := k.ReadLine()
					log = append(log, "S: "+strings.TrimSpace(l))
				}
				if inTxn && last {
					nontrivial = true
				}
				ended = true // without QUIT: nothing may be removed, the session must end
				break
			}
			words := strings.Split(line, " ")
			cmd := strings.ToUpper(words[0])
			args := words[1:]
			log = append(log, "C: "+line)
			if err := k.Send(line); err != nil {
				if k.Ended() {
					ended = true
					break
				}
				fail("wedge|not-reading", "server neither reads nor ends: "+err.Error())
				break
			}
			r := c13Read(k, popMulti(cmd, args))
			log = append(log, "S: "+strings.TrimSpace(r.Status)+fmt.Sprintf(" (+%d lines)", len(r.Body)))
			if !r.Well {
				// tolerated: RETR/TOP of a message that was deleted externally under the file
				// store cannot be read any more (outside the statement); the server says so.
				n, _ := strconv.Atoi(strings.Join(args[:min(1, len(args))], ""))
				if r.Unterm && (cmd == "RETR" || cmd == "TOP") && inTxn && n >= 1 && n <= len(snap) && extGone[snap[n-1].Ord] {
					c.Count("retr_of_externally_deleted_tolerated", 1)
					// the -ERR line was consumed as payload; nothing else must be pending
					if p := k.Pending(); p != "" {
						fail("reply|extra", fmt.Sprintf("extra bytes after %s: %q", cmd, p))
						break
					}
					continue
				}
				fail("reply|malformed|"+cmd, fmt.Sprintf("%q did not receive one well-formed response: %s", line, r.Why))
				break
			}
			if p := k.Pending(); p != "" {
				fail("reply|extra|"+cmd, fmt.Sprintf("%q received more than one response; extra %q", line, p))
				break
			}
			argN := func() (int, bool) { // valid message number of the snapshot?
				if len(args) < 1 {
					return 0, false
				}
				n, err := strconv.Atoi(args[0])
				if err != nil || n < 1 || n > len(snap) {
					return 0, false
				}
				return n, true
			}
			if !inTxn {
				switch cmd {
				case "USER":
					if r.OK && len(args) > 0 {
						user = args[0]
					}
				case "PASS", "APOP":
					if r.OK {
						if cmd == "APOP" && len(args) > 0 {
							user = args[0]
						}
						if user == "" {
							fail("login|without-user", "login succeeded although no user was named")
							break outer
						}
						inTxn = true
						snap = append([]*model.Msg{}, mo.Boxes[model.SimpleMailbox("local", user)]...)
						marked = make([]bool, len(snap))
						if last {
							nontrivial = true
						}
					}
				case "QUIT":
					if r.OK {
						ended = true
					}
				}
			} else if last {
				switch cmd {
				case "STAT":
					if len(args) == 0 {
						n, sz := unmarkedStat()
						want := fmt.Sprintf("+OK %d %d\r\n", n, sz)
						if r.Status != want {
							fail("stat|wrong", fmt.Sprintf("STAT answered %q, want %q", r.Status, want))
						}
					}
				case "LIST", "UIDL":
					val := func(m *model.Msg) string {
						if cmd == "LIST" {
							return strconv.FormatInt(m.Size, 10)
						}
						return m.ID
					}
					if len(args) == 0 {
						if !r.OK {
							fail(strings.ToLower(cmd)+"|refused", cmd+" without argument refused: "+r.Status)
							break
						}
						var want []string
						for i, m := range snap {
							if !marked[i] {
								want = append(want, fmt.Sprintf("%d %s\r\n", i+1, val(m)))
							}
						}
						// when the status line states a count it must agree with the listing (and so
						// with STAT)
						var stated int
						if _, err := fmt.Sscanf(r.Status, "+OK Listing %d messages", &stated); err == nil && stated != len(want) {
							fail(strings.ToLower(cmd)+"|count-disagrees", fmt.Sprintf("%s announces %q but %d messages are unmarked (STAT/LIST/UIDL must agree)", cmd, strings.TrimSpace(r.Status), len(want)))
						}
						if strings.Join(r.Body, "") != strings.Join(want, "") {
							fail(strings.ToLower(cmd)+"|listing-wrong", fmt.Sprintf("%s lists %q, want %q (login-time numbers, unmarked only)", cmd, r.Body, want))
						}
					} else if len(args) == 1 {
						n, ok := argN()
						if ok && !marked[n-1] {
							want := fmt.Sprintf("+OK %d %s\r\n", n, val(snap[n-1]))
							if r.Status != want {
								fail(strings.ToLower(cmd)+"|single-wrong", fmt.Sprintf("%s answered %q, want %q", line, r.Status, want))
							}
						} else if r.OK {
							fail(strings.ToLower(cmd)+"|single-accepted", fmt.Sprintf("%s answered %q for a marked/out-of-range/non-numeric message number", line, r.Status))
						}
					}
				case "DELE":
					n, ok := argN()
					if len(args) == 1 && ok && !marked[n-1] {
						if !r.OK {
							fail("dele|refused", fmt.Sprintf("%s refused: %s", line, r.Status))
						}
					} else if r.OK {
						fail("dele|accepted", fmt.Sprintf("%s accepted (%s) for a marked/out-of-range/non-numeric number", line, r.Status))
					}
				case "RETR", "TOP":
					n, ok := argN()
					valid := ok && ((cmd == "RETR" && len(args) == 1) || (cmd == "TOP" && len(args) == 2))
					lines := 0
					if valid && cmd == "TOP" {
						l, err := strconv.Atoi(args[1])
						if err != nil || l < 0 {
							valid = false
						}
						lines = l
					}
					if !valid {
						if r.OK {
							fail(strings.ToLower(cmd)+"|accepted", fmt.Sprintf("%s accepted (%s) with an invalid argument", line, r.Status))
						}
						break
					}
					if marked[n-1] || extGone[snap[n-1].Ord] {
						break // not pinned by the statement
					}
					if !r.OK {
						fail(strings.ToLower(cmd)+"|refused", fmt.Sprintf("%s refused: %s", line, r.Status))
						break
					}
					got := sys.NormLE(unstuff(r.Body))
					full := sys.NormLE(snap[n-1].Body)
					want := full
					if cmd == "TOP" {
						want = topOf(full, lines)
					} else if !strings.HasPrefix(r.Status, fmt.Sprintf("+OK %d ", snap[n-1].Size)) {
						fail("retr|size", fmt.Sprintf("RETR status %q does not announce the stored size %d", r.Status, snap[n-1].Size))
					}
					if got != want {
						fail(strings.ToLower(cmd)+"|content", fmt.Sprintf("%s returned %q, want %q", line, got, want))
					}
				case "RSET", "NOOP", "CAPA":
					if !r.OK {
						fail(strings.ToLower(cmd)+"|refused", cmd+" refused: "+r.Status)
					}
				}
			}
			// state update from the observed reply
			if inTxn && r.OK {
				switch cmd {
				case "DELE":
					if n, ok := argN(); ok && len(args) == 1 {
						marked[n-1] = true
						if last {
							nontrivial = true
						}
					}
				case "RSET":
					for i := range marked {
						marked[i] = false
					}
				case "QUIT":
					ended, quitInTxn = true, true
				}
			}
			if ended {
				break
			}
		}
		// Probe: in TRANSACTION state STAT, LIST and UIDL must agree with the model and with each
		// other after EVERY sequence; their raw answers are also part of the state key, so that
		// implementation-hidden session state that shows in them is not merged away.
		probe := ""
		if inTxn && !ended && extend {
			n, sz := unmarkedStat()
			for _, pc := range []string{"STAT", "LIST", "UIDL"} {
				if err := k.Send(pc); err != nil {
					break
				}
				r := c13Read(k, pc != "STAT")
				probe += r.Status + strings.Join(r.Body, "")
				if !r.Well || !r.OK {
					fail("probe|"+strings.ToLower(pc)+"|malformed", fmt.Sprintf("%s after the sequence: %s %s", pc, r.Status, r.Why))
					break
				}
				switch pc {
				case "STAT":
					if want := fmt.Sprintf("+OK %d %d\r\n", n, sz); r.Status != want {
						fail("probe|stat|wrong", fmt.Sprintf("STAT after the sequence answered %q, want %q", r.Status, want))
					}
				default:
					var stated int
					if _, err := fmt.Sscanf(r.Status, "+OK Listing %d messages", &stated); err == nil && stated != n {
						fail("probe|"+strings.ToLower(pc)+"|count-disagrees", fmt.Sprintf("%s announces %q but STAT counts %d unmarked messages", pc, strings.TrimSpace(r.Status), n))
					}
					if len(r.Body) != n {
						fail("probe|"+strings.ToLower(pc)+"|listing-disagrees", fmt.Sprintf("%s lists %d messages but %d are unmarked: %q", pc, len(r.Body), n, r.Body))
					}
				}
			}
			log = append(log, "[probe STAT/LIST/UIDL] "+strings.ReplaceAll(probe, "\r\n", "|"))
		}
		k.Close()
		if !k.Ended() {
			fail("wedge|session-does-not-end", "the client closed the connection but the session goroutine never returned")
		}
		// commit rule
		if quitInTxn {
			for i, m := range snap {
				if marked[i] {
					mo.Remove("u", m)
				}
			}
		}
		if d := sys.DiffBox(st, mo, "u", true); d != "" {
			how := "connection ended without QUIT"
			if quitInTxn {
				how = "QUIT in TRANSACTION"
			}
			fail("commit|store-differs", "after "+how+" the mailbox is not 'before minus marked-at-QUIT': "+d)
		}
		key = fmt.Sprintf("u=%s txn=%v marked=%v ext=%v ended=%v store=%s probe=%x", user, inTxn, marked, extGone, ended, mo.Key(), fnv32(probe))
		if ended {
			extend = false
		}
	})
	if leaked != "" {
		c.Violate("wedge|goroutine-left-blocked", "a goroutine of the session is still blocked after the client closed: "+leaked, cas)
		return "", false, false
	}
	return key, extend, nontrivial
}

// topOf returns the header block, the separating blank line and the first n body lines of an
// LF-normalised message.
func topOf(full string, n int) string {
	lines := strings.Split(full, "\n")
	var out []string
	inBody := false
	for _, l := range lines {
		if inBody {
			if n < 1 {
				break
			}
			n--
		} else if l == "" {
			inBody = true
		}
		out = append(out, l)
	}
	return strings.Join(out, "\n")
}

func c13Run(c *fw.Ctx) {
	for _, be := range []string{"mem", "file"} {
		for _, nm := range fw.Pick(c, []int{3, 0}, []int{3, 0, 2}) {
			c13Explore(c, be, nm, false)
		}
	}
	// Start from a non-initial state too: the same search from a session that has already logged
	// in (prelude USER u, PASS p), so that the depth bound is spent on TRANSACTION-state commands
	// and external events (e.g. DELE 1, DELE 2, external delete of 1, QUIT).
	for _, be := range []string{"mem", "file"} {
		for _, nm := range fw.Pick(c, []int{3, 1}, []int{3, 1, 2}) { // 1: "every message of the snapshot is marked" is two commands away
			c13Explore(c, be, nm, true)
		}
	}
}

// the logged-in search logs in with the non-canonical spelling
var c13Prelude = func() []int {
	idx := func(l string) int {
		for i, x := range c13Sigma {
			if x == l {
				return i
			}
		}
		panic("VERIF-INFRA c13 alphabet lacks " + l)
	}
	return []int{idx("USER U+tag@x.test"), idx("PASS p")}
}()

func c13Explore(c *fw.Ctx, be string, nm int, loggedIn bool) {
	// alphabet of this tier: positions → indices into c13Sigma
	alpha := make([]int, len(c13Sigma))
	for i := range alpha {
		alpha[i] = i
	}
	if !c.Thorough() {
		alpha = c13Quick
	}
	var prelude []int
	if loggedIn {
		prelude = c13Prelude
		// the AUTHORIZATION-state commands are all "unknown command" here; one stands for all
		var a []int
		for _, i := range alpha {
			if i >= 1 && i <= 5 {
				continue
			}
			a = append(a, i)
		}
		alpha = a
		if !c.Thorough() {
			// quick: the commands that matter in TRANSACTION state, one tier deeper instead
			alpha = alpha[:0:0]
			for i, l := range c13Sigma {
				switch l {
				case "STAT", "LIST", "UIDL", "RSET", "QUIT", "XY", "DELE 1", "DELE 2", "RETR 2",
					"LIST 1", "!deliver", "!extdel 1", "!extdel 2", "RETR 2 !hangup", "QUIT !noread", "!idle", "STLS":
					alpha = append(alpha, i)
				}
				if len(l) > 4000 {
					alpha = append(alpha, i) // the over-long line whose tail reads "DELE 2"
				}
			}
		}
	}
	full, maxd := fw.Pick(c, 2, 3), fw.Pick(c, 4, 6)
	if loggedIn && !c.Thorough() {
		full, maxd = 3, 4
	}
	tr := func(seq []int) []int {
		out := append([]int{}, prelude...)
		for _, p := range seq {
			out = append(out, alpha[p])
		}
		return out
	}
	e := &fw.SeqExplorer{
		C: c, NOps: len(alpha),
		FullDepth: full,
		MaxDepth:  maxd,
		Run: func(pseq []int) (string, bool, bool) {
			seq := tr(pseq)
			var key string
			var ext, nt bool
			if c.Guard(be, c13Desc(be, nm, seq), func() { key, ext, nt = c13Exec(c, be, nm, seq, false) }) {
				return "", false, false
			}
			if key != "" {
				key += fmt.Sprintf("|last%d", seq[len(seq)-1])
			}
			return key, ext, nt
		},
		Desc: func(pseq []int) any { return c13Desc(be, nm, tr(pseq)) },
	}
	e.Explore()
}

func c13Replay(c *fw.Ctx, raw json.RawMessage) {
	var cas c13Case
	if err := json.Unmarshal(raw, &cas); err != nil {
		c.T.Fatalf("VERIF-INFRA bad case: %v", err)
	}
	c.Guard(cas.Backend, cas, func() { c13Exec(c, cas.Backend, cas.NMsgs, cas.Seq, true) })
}

func init() {
	fw.Register(&fw.Body{ID: "C13", Part: "seq", Run: c13Run, ReplayCase: c13Replay})
}

func fnv32(s string) uint32 {
	h := uint32(2166136261)
	for i := 0; i < len(s); i++ {
		h ^= uint32(s[i])
		h *= 16777619
	}
	return h
}
