//go:build sched

package checks

import (
	"encoding/json"
	"fmt"
	"strings"
	"sync"
	"time"

	"github.com/inbucket/inbucket/v3/pkg/vrt/vsched"

	"verif/fw"
	"verif/sys"
)

// C13, concurrent clause: "after login a POP3 session shows the mailbox as it was at that
// moment".  Two clients log in to the same mailbox while a third party delivers one more
// message; the second client sends its PASS only after that delivery has been acknowledged.
// Over every schedule within the preemption bound: the second session shows the new message
// (its login came after the delivery was complete), the first shows the mailbox as it was at
// some moment between its PASS and the answer (with or without the new message), each
// session's STAT, LIST and UIDL agree with each other, and the sessions end.

func c13SchedScenario(c *fw.Ctx, backend string) schedScenario {
	id := "P1-" + backend + "-two-logins-around-a-delivery"
	run := func(cfg vsched.Config) (res schedResult) {
		var e *vsched.Exec
		var mu sync.Mutex
		counts := map[string]int{"a": -1, "b": -1}
		listed := map[string]int{"a": -1, "b": -1}
		var probs [][2]string
		leaked := inBubble(c.T, func() {
			var s *sys.Sys
			e = vsched.Run(cfg, func() (func(), []vsched.Thread, func()) {
				s = sys.New(sys.Spec{Store: sys.StoreSpec{Backend: backend}, SMTP: sys.DefaultSMTP(), NoHub: true})
				delivered := make(chan struct{})
				conns := map[string]*sys.Conn{}
				init := func() {
					_, _ = s.StoreH.Store.AddMessage(sys.Delivery("u", "f@x.test", []string{"u@x.test"}, "one", "Subject: one\r\n\r\none\r\n", time.Now()))
					for _, who := range []string{"a", "b"} {
						k := s.DialPOP3()
						k.ReadLine()
						_ = k.Send("USER u")
						k.ReadLine()
						conns[who] = k
					}
				}
				login := func(who string, wait chan struct{}) func() {
					return func() {
						if wait != nil {
							<-wait
						}
						k := conns[who]
						vsched.Point("client " + who + ": PASS")
						_ = k.Send("PASS p")
						k.ReadLine()
						_ = k.Send("STAT")
						st, _ := k.ReadLine()
						n := -1
						fmt.Sscanf(st, "+OK %d", &n)
						_ = k.Send("UIDL")
						lines := 0
						for {
							l, ok := k.ReadLine()
							if !ok || strings.HasPrefix(l, ".") {
								break
							}
							if !strings.HasPrefix(l, "+OK") && !strings.HasPrefix(l, "-ERR") {
								lines++
							}
						}
						_ = k.Send("QUIT")
						k.ReadLine()
						k.Close()
						mu.Lock()
						counts[who], listed[who] = n, lines
						mu.Unlock()
					}
				}
				ths := []vsched.Thread{
					{Name: "client-a", F: login("a", nil)},
					{Name: "deliverer", F: func() {
						vsched.Point("deliverer: about to deliver")
						_, _ = s.StoreH.Store.AddMessage(sys.Delivery("u", "f@x.test", []string{"u@x.test"}, "two", "Subject: two\r\n\r\ntwo\r\n", time.Now()))
						close(delivered)
					}},
					{Name: "client-b", F: login("b", delivered)},
				}
				cleanup := func() {
					safely(func() {
						mu.Lock()
						defer mu.Unlock()
						for _, who := range []string{"a", "b"} {
							if counts[who] >= 0 && counts[who] != listed[who] {
								probs = append(probs, [2]string{"stat-uidl-disagree", fmt.Sprintf("session %s: STAT says %d messages, UIDL lists %d", who, counts[who], listed[who])})
							}
						}
						if counts["b"] != 2 {
							probs = append(probs, [2]string{"login-snapshot-stale", fmt.Sprintf("session b sent PASS after the second message had been stored, yet it shows %d message(s) (session a: %d): the session does not show the mailbox as it was when it logged in", counts["b"], counts["a"])})
						}
						if counts["a"] != 1 && counts["a"] != 2 {
							probs = append(probs, [2]string{"login-snapshot-wrong", fmt.Sprintf("session a shows %d messages; the mailbox held 1 or 2 during its login", counts["a"])})
						}
					})
					s.Close()
				}
				return init, ths, cleanup
			})
		})
		if leaked != "" && (e == nil || (len(e.Panics) == 0 && !e.Deadlock)) {
			res.Infra = "bubble: " + leaked
			return res
		}
		res.Exec = e
		res.Probs = append(res.Probs, stdProbs(e)...)
		res.Outcome = fmt.Sprintf("a=%d b=%d", counts["a"], counts["b"])
		if len(res.Probs) == 0 {
			res.Probs = append(res.Probs, probs...)
		}
		return res
	}
	return schedScenario{ID: id, Bound: fw.Pick(c, 2, 3), Run: run}
}

// P2: marks are private to a session.  An earlier session on the mailbox has logged in and QUIT
// (whatever the server recycles from a finished session is there to be recycled); then two sessions
// on the same mailbox are open at the same time: a marks message 1 and goes away without QUIT, b -
// logged in before that DELE, asking after it - must still show both messages, and after b's QUIT
// (nothing marked) and a's disappearance (never committed) the mailbox holds both.  The clients'
// steps are ordered by hand-offs; the schedules of the server's session goroutines are explored.
func c13SchedMarksScenario(c *fw.Ctx, backend string) schedScenario {
	id := "P2-" + backend + "-marks-private-after-an-earlier-quit"
	run := func(cfg vsched.Config) (res schedResult) {
		var e *vsched.Exec
		var mu sync.Mutex
		bStat, bListed, final := -1, -1, -1
		var probs [][2]string
		leaked := inBubble(c.T, func() {
			var s *sys.Sys
			e = vsched.Run(cfg, func() (func(), []vsched.Thread, func()) {
				s = sys.New(sys.Spec{Store: sys.StoreSpec{Backend: backend}, SMTP: sys.DefaultSMTP(), NoHub: true})
				conns := map[string]*sys.Conn{}
				aIn, bIn, aMarked := make(chan struct{}), make(chan struct{}), make(chan struct{})
				init := func() {
					for _, w := range []string{"one", "two"} {
						_, _ = s.StoreH.Store.AddMessage(sys.Delivery("u", "f@x.test", []string{"u@x.test"}, w, "Subject: "+w+"\r\n\r\n"+w+"\r\n", time.Now()))
					}
					k := s.DialPOP3()
					k.ReadLine()
					for _, cmd := range []string{"USER u", "PASS p", "QUIT"} {
						_ = k.Send(cmd)
						k.ReadLine()
					}
					k.Close()
					for _, who := range []string{"a", "b"} {
						k := s.DialPOP3()
						k.ReadLine()
						_ = k.Send("USER u")
						k.ReadLine()
						conns[who] = k
					}
				}
				ths := []vsched.Thread{
					{Name: "client-a", F: func() {
						k := conns["a"]
						_ = k.Send("PASS p")
						k.ReadLine()
						close(aIn)
						<-bIn
						_ = k.Send("DELE 1")
						k.ReadLine()
						close(aMarked)
						k.Close() // gone without QUIT: nothing is committed
					}},
					{Name: "client-b", F: func() {
						k := conns["b"]
						<-aIn
						_ = k.Send("PASS p")
						k.ReadLine()
						close(bIn)
						<-aMarked
						_ = k.Send("STAT")
						st, _ := k.ReadLine()
						n := -1
						fmt.Sscanf(st, "+OK %d", &n)
						_ = k.Send("UIDL")
						lines := 0
						for {
							l, ok := k.ReadLine()
							if !ok || strings.HasPrefix(l, ".") {
								break
							}
							if !strings.HasPrefix(l, "+OK") && !strings.HasPrefix(l, "-ERR") {
								lines++
							}
						}
						_ = k.Send("QUIT")
						k.ReadLine()
						k.Close()
						mu.Lock()
						bStat, bListed = n, lines
						mu.Unlock()
					}},
				}
				cleanup := func() {
					safely(func() {
						msgs, err := s.StoreH.Store.GetMessages("u")
						mu.Lock()
						defer mu.Unlock()
						if err == nil {
							final = len(msgs)
						}
						if bStat != 2 || bListed != 2 {
							probs = append(probs, [2]string{"marks-leak-between-sessions", fmt.Sprintf("session b (logged in to a mailbox of 2, marked nothing) answers STAT %d and lists %d after ANOTHER session's DELE 1: delete marks are not private to the session", bStat, bListed)})
						}
						if final != 2 {
							probs = append(probs, [2]string{"uncommitted-delete-applied", fmt.Sprintf("the mailbox holds %d message(s) after session a (DELE 1) went away without QUIT and session b (no DELE) QUIT; it held 2", final)})
						}
					})
					s.Close()
				}
				return init, ths, cleanup
			})
		})
		if leaked != "" && (e == nil || (len(e.Panics) == 0 && !e.Deadlock)) {
			res.Infra = "bubble: " + leaked
			return res
		}
		res.Exec = e
		res.Probs = append(res.Probs, stdProbs(e)...)
		res.Outcome = fmt.Sprintf("bstat=%d blisted=%d final=%d", bStat, bListed, final)
		if len(res.Probs) == 0 {
			res.Probs = append(res.Probs, probs...)
		}
		return res
	}
	return schedScenario{ID: id, Bound: fw.Pick(c, 1, 2), Run: run}
}

func c13SchedRun(c *fw.Ctx) {
	for _, be := range []string{"mem", "file"} {
		c.Share(2, func() { exploreSched(c, c13SchedScenario(c, be)) })
	}
	for _, be := range []string{"mem", "file"} {
		c.Share(2, func() { exploreSched(c, c13SchedMarksScenario(c, be)) })
	}
}

func c13SchedReplay(c *fw.Ctx, raw json.RawMessage) {
	var cas schedCase
	_ = json.Unmarshal(raw, &cas)
	for _, be := range []string{"mem", "file"} {
		if sc := c13SchedScenario(c, be); sc.ID == cas.Scenario {
			replaySched(c, sc, raw)
			return
		}
		if sc := c13SchedMarksScenario(c, be); sc.ID == cas.Scenario {
			replaySched(c, sc, raw)
			return
		}
	}
	c.T.Fatalf("VERIF-INFRA unknown scenario %q", cas.Scenario)
}

func init() {
	fw.Register(&fw.Body{ID: "C13", Part: "sched", Run: c13SchedRun, ReplayCase: c13SchedReplay})
}
