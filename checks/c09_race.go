//go:build racepass

package checks

import (
	"bufio"
	"fmt"
	"os"
	"path/filepath"
	"strings"
	"sync"
	"time"

	"github.com/inbucket/inbucket/v3/pkg/storage"

	"verif/fw"
	"verif/sys"
)

// Free-running -race pass over the same scenario bodies (sampling; it does not decide the
// schedule-quantified clause, it guards its atomicity assumption and the "no data race" part).

func raceRunStoreSpec(sp c09Spec) {
	sh := sys.NewStore(sp.Store, nil)
	defer sh.Close()
	st := sh.Store
	initIDs := map[string]string{}
	n := 0
	add := func(mb string, size int) string {
		n++
		if size == 0 {
			size = 40
		}
		id, _ := st.AddMessage(sys.Delivery(mb, "f@x.test", []string{"t@x.test"}, "s", sizedBody(size), time.Unix(1700000000, 0)))
		return id
	}
	for i, op := range sp.Init {
		initIDs[fmt.Sprintf("init%d", i+1)] = add(op.MB, op.Size)
	}
	var wg sync.WaitGroup
	var mu sync.Mutex
	for _, ops := range sp.Threads {
		ops := ops
		wg.Add(1)
		go func() {
			defer wg.Done()
			for _, op := range ops {
				id := op.Ref
				if v, ok := initIDs[op.Ref]; ok {
					id = v
				}
				switch op.Kind {
				case "add":
					mu.Lock()
					mu.Unlock()
					add2 := sys.Delivery(op.MB, "f@x.test", []string{"t@x.test"}, "s", sizedBody(max(op.Size, 40)), time.Unix(1700000001, 0))
					_, _ = st.AddMessage(add2)
				case "remove":
					_ = st.RemoveMessage(op.MB, id)
				case "seen":
					_ = st.MarkSeen(op.MB, id)
				case "purge":
					_ = st.PurgeMessages(op.MB)
				case "list":
					ms, _ := st.GetMessages(op.MB)
					for _, m := range ms {
						_ = sys.Observe(m)
					}
				case "get":
					if m, err := st.GetMessage(op.MB, id); err == nil && m != nil {
						_ = sys.Observe(m)
					}
				case "visitremove":
					_ = st.VisitMailboxes(func(ms []storage.Message) bool {
						if len(ms) > 0 && ms[0].Mailbox() == op.MB {
							_ = st.RemoveMessage(op.MB, ms[0].ID())
						}
						for _, m := range ms {
							_ = m.Seen()
							_ = m.Subject()
						}
						return true
					})
				}
			}
		}()
	}
	wg.Wait()
}

// raceReports converts the race detector's log files into violations.
func raceReports(c *fw.Ctx, prefix string) {
	files, _ := filepath.Glob(prefix + "*")
	for _, f := range files {
		fh, err := os.Open(f)
		if err != nil {
			continue
		}
		sc := bufio.NewScanner(fh)
		sc.Buffer(make([]byte, 1<<20), 1<<24)
		var block []string
		flush := func() {
			if len(block) == 0 {
				return
			}
			var frames []string
			for _, l := range block {
				l = strings.TrimSpace(l)
				if strings.HasPrefix(l, "github.com/inbucket/inbucket/v3/") && len(frames) < 2 {
					fn := strings.TrimPrefix(l, "github.com/inbucket/inbucket/v3/")
					if i := strings.LastIndex(fn, "("); i > 0 {
						fn = fn[:i]
					}
					if len(frames) == 0 || frames[0] != fn {
						frames = append(frames, fn)
					}
				}
			}
			txt := strings.Join(block, "\n")
			if len(txt) > 1800 {
				txt = txt[:1800]
			}
			if len(frames) == 0 {
				// no inbucket frame at all: a race inside the harness itself is a broken check
				c.T.Fatalf("VERIF-INFRA the -race pass found a data race in the harness, not in inbucket:\n%s", txt)
			}
			c.Violate("race|"+strings.Join(frames, "|"), "the race detector reports a data race:\n"+txt, map[string]string{"report": f})
			block = nil
		}
		in := false
		for sc.Scan() {
			l := sc.Text()
			if strings.HasPrefix(l, "WARNING: DATA RACE") {
				flush()
				in = true
			}
			if strings.HasPrefix(l, "==================") {
				if in && len(block) > 0 {
					flush()
					in = false
				}
				continue
			}
			if in {
				block = append(block, l)
			}
		}
		flush()
		fh.Close()
	}
}

func racePassRun(id string, bodies func(c *fw.Ctx, iter int)) func(c *fw.Ctx) {
	return func(c *fw.Ctx) {
		iters := fw.Pick(c, 300, 3000)
		for i := 0; i < iters; i++ {
			if c.Expired() {
				break
			}
			if !c.Begin(func() any { return map[string]any{"race_iteration": i} }) {
				continue
			}
			bodies(c, i)
			c.Nontrivial(1)
		}
		c.Count("race_pass_iterations", int64(iters))
		c.NotExhaustive("the -race pass is sampling by nature")
		raceReports(c, os.Getenv("VERIF_RACELOG"))
		c.Sample(map[string]any{"race_pass": id, "iterations": iters})
	}
}

func init() {
	fw.Register(&fw.Body{ID: "C09", Part: "race", Run: racePassRun("C09", func(c *fw.Ctx, i int) {
		for _, sp := range c09Specs() {
			raceRunStoreSpec(sp)
		}
	})})
}

// C17 race pass: concurrent SMTP sessions against a script with all five handlers.
const c17RaceScript = `
local n = 0
function inbucket.before.mail_from_accepted(session)
  n = n + 1
  if session.from.address == "deny@x.test" then return smtp.deny(550, "no") end
  return smtp.defer()
end
function inbucket.before.rcpt_to_accepted(session) return smtp.allow() end
function inbucket.before.message_stored(msg) msg.subject = "rw " .. msg.subject; return msg end
function inbucket.after.message_stored(msg) n = n + 1 end
function inbucket.after.message_deleted(msg) n = n + 1 end
`

func raceRunLua() {
	s := sys.New(sys.Spec{Store: sys.StoreSpec{Backend: "mem", Cap: 2}, SMTP: sys.DefaultSMTP(), Lua: c17RaceScript})
	defer s.Close()
	var wg sync.WaitGroup
	for i, who := range []string{"deny@x.test", "a@x.test", "b@x.test", "c@x.test"} {
		wg.Add(1)
		go func(i int, who string) {
			defer wg.Done()
			k := s.DialSMTP()
			d := &sys.SMTPDriver{K: k}
			d.Greeting()
			d.Cmd("HELO c")
			if r := d.Cmd("MAIL FROM:<" + who + ">"); r.Class() == 2 {
				d.Cmd("RCPT TO:<box@x.test>")
				d.Data("Subject: r\r\n\r\nrace\r\n")
			}
			d.Cmd("QUIT")
			k.Close()
			<-k.Done
		}(i, who)
	}
	wg.Wait()
	time.Sleep(2 * time.Millisecond) // let the asynchronous after-events run
}

func init() {
	fw.Register(&fw.Body{ID: "C17", Part: "race", Run: racePassRun("C17", func(c *fw.Ctx, i int) { raceRunLua() })})
}
