package checks

import (
	"bufio"
	"encoding/json"
	"fmt"
	"os"
	"os/exec"
	"path/filepath"
	"regexp"
	"sort"
	"strconv"
	"strings"
	"time"

	"github.com/inbucket/inbucket/v3/pkg/storage"

	"verif/fw"
	"verif/sys"
)

// C11 — a crash at any point of a file-store update leaves every mailbox readable.
//
// Engine E3: the real syscalls of the real write path are recorded with strace; every prefix of
// that log (with every partial write of the file in flight, and every subset of a run of sibling
// unlinks) is materialised as a directory image and recovered with a fresh real file store.

var c11Ops = []string{"add m1", "add m2", "seen", "remove oldest", "remove last", "purge"}

type c11Hist struct {
	Cap int   `json:"cap"`
	Ops []int `json:"ops"`
}

func (h c11Hist) String() string {
	var s []string
	for _, o := range h.Ops {
		s = append(s, c11Ops[o])
	}
	return fmt.Sprintf("cap=%d: %s", h.Cap, strings.Join(s, "; "))
}

// c11State is the observable content of the store (what a reader sees).
type c11State map[string][]sys.ObsMsg

func c11Observe(st storage.Store, names []string) (c11State, error) {
	out := c11State{}
	for _, n := range names {
		ms, err := st.GetMessages(n)
		if err != nil {
			return nil, fmt.Errorf("GetMessages(%q): %v", n, err)
		}
		l := []sys.ObsMsg{}
		for _, m := range ms {
			l = append(l, sys.Observe(m))
		}
		out[n] = l
	}
	return out, nil
}

func obsEqual(a, b []sys.ObsMsg) bool {
	if len(a) != len(b) {
		return false
	}
	for i := range a {
		x, y := a[i], b[i]
		if x.ID != y.ID || x.Mailbox != y.Mailbox || x.From != y.From || x.Subject != y.Subject || x.Size != y.Size || x.Seen != y.Seen ||
			x.DateNS != y.DateNS || x.Body != y.Body || x.BodyErr != y.BodyErr || strings.Join(x.To, ",") != strings.Join(y.To, ",") {
			return false
		}
	}
	return true
}

var c11Boxes = []string{storeBoxes[0], storeBoxes[1]} // m1 and a name in the same hash directory

// c11Apply performs one op of the alphabet on a live store; it returns the mailbox it touches.
func c11Apply(st storage.Store, op int, clock *int) (touched string, err error) {
	mb := c11Boxes[0]
	switch c11Ops[op] {
	case "add m1", "add m2":
		if c11Ops[op] == "add m2" {
			mb = c11Boxes[1]
		}
		*clock++
		body := fmt.Sprintf("Subject: c11 %d\r\n\r\nbody of message %d\r\n", *clock, *clock)
		_, err = st.AddMessage(sys.Delivery(mb, "f@x.test", []string{"t@x.test"}, fmt.Sprintf("c11 %d", *clock), body, time.Unix(1700000000+int64(*clock)*3600, 0)))
	case "seen":
		ms, _ := st.GetMessages(mb)
		if len(ms) > 0 {
			err = st.MarkSeen(mb, ms[len(ms)-1].ID())
		}
	case "remove oldest":
		ms, _ := st.GetMessages(mb)
		if len(ms) > 0 {
			err = st.RemoveMessage(mb, ms[0].ID())
		}
	case "remove last":
		// remove until one message is left, then remove that one (the "last remaining" path)
		ms, _ := st.GetMessages(mb)
		if len(ms) > 0 {
			err = st.RemoveMessage(mb, ms[len(ms)-1].ID())
		}
	case "purge":
		err = st.PurgeMessages(mb)
	}
	return mb, err
}

type c11RecOp struct {
	Hist    int      `json:"hist"`
	Op      int      `json:"op"`
	Touched string   `json:"touched"`
	After   c11State `json:"after"`
	Err     string   `json:"err,omitempty"`
}

// c11Record is the traced role: run the histories on the real file store, marking op
// boundaries with readlink("/VERIFMARK/…") calls that show up in the syscall log.
func c11Record(c *fw.Ctx) {
	var hists []c11Hist
	raw, err := os.ReadFile(os.Getenv("VERIF_C11_HISTS"))
	if err != nil || json.Unmarshal(raw, &hists) != nil {
		c.T.Fatalf("VERIF-INFRA record: histories: %v", err)
	}
	base := os.Getenv("VERIF_C11_DIR")
	out, err := os.Create(os.Getenv("VERIF_C11_STATES"))
	if err != nil {
		c.T.Fatalf("VERIF-INFRA record: %v", err)
	}
	w := bufio.NewWriter(out)
	enc := json.NewEncoder(w)
	mark := func(s string) { _, _ = os.Readlink("/VERIFMARK/" + s) }
	for hi, h := range hists {
		dir := filepath.Join(base, "h"+strconv.Itoa(hi))
		_ = os.MkdirAll(dir, 0o755)
		mark(fmt.Sprintf("h%d.op-1.init", hi))
		sh := sys.NewStore(sys.StoreSpec{Backend: "file", Cap: h.Cap, Dir: dir}, nil)
		clock := 0
		for oi, op := range h.Ops {
			mark(fmt.Sprintf("h%d.op%d.begin", hi, oi))
			touched, err := c11Apply(sh.Store, op, &clock)
			mark(fmt.Sprintf("h%d.op%d.end", hi, oi))
			rec := c11RecOp{Hist: hi, Op: oi, Touched: touched}
			if err != nil {
				rec.Err = err.Error()
			}
			rec.After, err = c11Observe(sh.Store, c11Boxes)
			if err != nil {
				rec.Err += " observe: " + err.Error()
			}
			_ = enc.Encode(rec)
		}
	}
	_ = w.Flush()
	_ = out.Close()
}

// ---------------------------------------------------------------------------------------------
// syscall log → file-system effects

type fsEffect struct {
	Kind  string // mkdir create create-keep write truncate unlink rmdir rename
	Path  string
	Path2 string
	Data  []byte
	Off   int64 // write: file offset the data goes to (-1 = append); truncate: the new length
	ByFd  bool  // unlink issued relative to a directory fd (one entry of a RemoveAll walk)
}

var reStrace = regexp.MustCompile(`^(\d+)\s+(\w+)\((.*)\)\s+= (-?\d+)`)
var reUnfinished = regexp.MustCompile(`^(\d+)\s+(\w+)\((.*) <unfinished \.\.\.>$`)
var reResumed = regexp.MustCompile(`^(\d+)\s+<\.\.\. (\w+) resumed>(.*)$`)
var reHexStr = regexp.MustCompile(`"((?:\\x[0-9a-f]{2})*)"`)

func unhex(s string) []byte {
	out := make([]byte, 0, len(s)/4)
	for i := 0; i+3 < len(s); i += 4 {
		v, _ := strconv.ParseUint(s[i+2:i+4], 16, 8)
		out = append(out, byte(v))
	}
	return out
}

type c11Trace struct {
	// effects per (history, op)
	Ops map[[2]int][]fsEffect
}

func c11Parse(logPath, base string) (*c11Trace, error) {
	f, err := os.Open(logPath)
	if err != nil {
		return nil, err
	}
	defer f.Close()
	tr := &c11Trace{Ops: map[[2]int][]fsEffect{}}
	fds := map[int]string{}
	fdOff := map[int]int64{} // file offset of each descriptor (-1 = O_APPEND)
	pending := map[string]string{}
	cur := [2]int{-1, -1}
	inOp := false
	sc := bufio.NewScanner(f)
	sc.Buffer(make([]byte, 1<<20), 1<<28)
	add := func(e fsEffect) {
		if !strings.HasPrefix(e.Path, base) {
			return
		}
		if !inOp {
			// file-system effects outside any operation (store construction): keep under op -1
			tr.Ops[[2]int{cur[0], -1}] = append(tr.Ops[[2]int{cur[0], -1}], e)
			return
		}
		tr.Ops[cur] = append(tr.Ops[cur], e)
	}
	resolve := func(dirfd, p string) string {
		if strings.HasPrefix(p, "/") || dirfd == "AT_FDCWD" {
			return p
		}
		n, _ := strconv.Atoi(dirfd)
		return filepath.Join(fds[n], p)
	}
	for sc.Scan() {
		line := sc.Text()
		if m := reUnfinished.FindStringSubmatch(line); m != nil {
			pending[m[1]] = m[1] + " " + m[2] + "(" + m[3]
			continue
		}
		if m := reResumed.FindStringSubmatch(line); m != nil {
			line = pending[m[1]] + m[3]
			delete(pending, m[1])
		}
		m := reStrace.FindStringSubmatch(line)
		if m == nil {
			continue
		}
		name, args := m[2], m[3]
		ret, _ := strconv.Atoi(m[4])
		var strs []string
		for _, x := range reHexStr.FindAllStringSubmatch(args, -1) {
			strs = append(strs, string(unhex(x[1])))
		}
		first := args
		if i := strings.IndexByte(args, ','); i >= 0 {
			first = args[:i]
		}
		if name == "readlinkat" && len(strs) > 0 && strings.HasPrefix(strs[0], "/VERIFMARK/") {
			var h, o int
			var which string
			mk := strings.TrimPrefix(strs[0], "/VERIFMARK/")
			parts := strings.Split(mk, ".")
			if len(parts) == 3 {
				h, _ = strconv.Atoi(parts[0][1:])
				o, _ = strconv.Atoi(parts[1][2:])
				which = parts[2]
				cur = [2]int{h, o}
				inOp = which == "begin"
				if !inOp {
					cur = [2]int{h, o}
				}
			}
			continue
		}
		if ret < 0 {
			continue
		}
		switch name {
		case "openat":
			if len(strs) == 0 {
				continue
			}
			p := resolve(first, strs[0])
			fds[ret] = p
			fdOff[ret] = 0
			if strings.Contains(args, "O_APPEND") {
				fdOff[ret] = -1
			}
			if strings.Contains(args, "O_CREAT") || strings.Contains(args, "O_TRUNC") {
				if strings.Contains(args, "O_TRUNC") {
					add(fsEffect{Kind: "create", Path: p})
				} else {
					add(fsEffect{Kind: "create-keep", Path: p})
				}
			}
		case "write", "pwrite64":
			n, _ := strconv.Atoi(first)
			if p, ok := fds[n]; ok && strings.HasPrefix(p, base) {
				x := reHexStr.FindStringSubmatch(args)
				if x == nil {
					return nil, fmt.Errorf("unmodelled write (no data): %s", line)
				}
				data := unhex(x[1])
				if len(data) != ret {
					data = data[:min(ret, len(data))]
				}
				off := fdOff[n]
				if name == "pwrite64" {
					// pwrite64(fd, data, count, offset): positional, the descriptor's offset stays
					parts := strings.Split(args, ",")
					o, err := strconv.ParseInt(strings.TrimSpace(parts[len(parts)-1]), 10, 64)
					if err != nil {
						return nil, fmt.Errorf("unmodelled pwrite64: %s", line)
					}
					off = o
				} else if off >= 0 {
					fdOff[n] = off + int64(ret)
				}
				add(fsEffect{Kind: "write", Path: p, Data: data, Off: off})
			}
		case "close":
			n, _ := strconv.Atoi(first)
			delete(fds, n)
		case "mkdirat":
			add(fsEffect{Kind: "mkdir", Path: resolve(first, strs[0])})
		case "unlinkat":
			k := "unlink"
			if strings.Contains(args, "AT_REMOVEDIR") {
				k = "rmdir"
			}
			add(fsEffect{Kind: k, Path: resolve(first, strs[0]), ByFd: first != "AT_FDCWD"})
		case "renameat", "renameat2", "rename":
			if len(strs) < 2 {
				return nil, fmt.Errorf("unmodelled rename: %s", line)
			}
			if name == "rename" {
				add(fsEffect{Kind: "rename", Path: strs[0], Path2: strs[1]})
			} else {
				// renameat(olddirfd, old, newdirfd, new)
				parts := strings.SplitN(args, ",", 4)
				add(fsEffect{Kind: "rename", Path: resolve(strings.TrimSpace(parts[0]), strs[0]), Path2: resolve(strings.TrimSpace(parts[2]), strs[1])})
			}
		case "lseek":
			n, _ := strconv.Atoi(first)
			if p, ok := fds[n]; ok && strings.HasPrefix(p, base) {
				fdOff[n] = int64(ret)
			}
		case "ftruncate":
			n, _ := strconv.Atoi(first)
			if p, ok := fds[n]; ok && strings.HasPrefix(p, base) {
				parts := strings.Split(args, ",")
				sz, err := strconv.ParseInt(strings.TrimSpace(parts[len(parts)-1]), 10, 64)
				if err != nil {
					return nil, fmt.Errorf("unmodelled ftruncate: %s", line)
				}
				add(fsEffect{Kind: "truncate", Path: p, Off: sz})
			}
		case "truncate", "linkat", "symlinkat", "fallocate":
			n, _ := strconv.Atoi(first)
			if p, ok := fds[n]; (ok && strings.HasPrefix(p, base)) || (len(strs) > 0 && strings.HasPrefix(strs[0], base)) {
				return nil, fmt.Errorf("unmodelled effect %s: %s", name, line)
			}
		}
	}
	return tr, sc.Err()
}

// fsImage is an in-memory file system (paths → content; nil content = directory).
type fsImage map[string][]byte

func (im fsImage) clone() fsImage {
	c := make(fsImage, len(im))
	for k, v := range im {
		c[k] = v
	}
	return c
}

func (im fsImage) apply(e fsEffect, cut int) {
	switch e.Kind {
	case "mkdir":
		im[e.Path] = nil
	case "create":
		im[e.Path] = []byte{}
	case "create-keep":
		if _, ok := im[e.Path]; !ok {
			im[e.Path] = []byte{}
		}
	case "write":
		d := e.Data
		if cut >= 0 {
			d = d[:cut]
		}
		cur := im[e.Path]
		off := int(e.Off)
		if off < 0 || off > len(cur) {
			off = len(cur) // append (a write beyond the end does not occur in the store)
		}
		nb := make([]byte, max(len(cur), off+len(d)))
		copy(nb, cur)
		copy(nb[off:], d) // an in-place write keeps the old bytes behind what was written so far
		im[e.Path] = nb
	case "truncate":
		cur := im[e.Path]
		switch {
		case int(e.Off) <= len(cur):
			im[e.Path] = append([]byte{}, cur[:e.Off]...)
		default:
			im[e.Path] = append(append([]byte{}, cur...), make([]byte, int(e.Off)-len(cur))...)
		}
	case "unlink", "rmdir":
		delete(im, e.Path)
	case "rename":
		if v, ok := im[e.Path]; ok {
			im[e.Path2] = v
			delete(im, e.Path)
		}
	}
}

func (im fsImage) materialize(root, dst string) error {
	paths := make([]string, 0, len(im))
	for p := range im {
		paths = append(paths, p)
	}
	sort.Strings(paths)
	for _, p := range paths {
		q := filepath.Join(dst, strings.TrimPrefix(p, root))
		if im[p] == nil {
			if err := os.MkdirAll(q, 0o770); err != nil {
				return err
			}
			continue
		}
		if err := os.MkdirAll(filepath.Dir(q), 0o770); err != nil {
			return err
		}
		if err := os.WriteFile(q, im[p], 0o660); err != nil {
			return err
		}
	}
	return nil
}

// ---------------------------------------------------------------------------------------------

type c11Case struct {
	Hist  c11Hist `json:"hist"`
	Point string  `json:"crash_point"`
}

// c11Oracle recovers one image with a fresh real store and evaluates the property.
func c11Oracle(c *fw.Ctx, cas c11Case, root string, im fsImage, touched string, pre, post c11State, capN int, lastOp int) {
	dst := sys.FreshDir()
	defer os.RemoveAll(dst)
	if err := im.materialize(root, dst); err != nil {
		panic("VERIF-INFRA materialize: " + err.Error())
	}
	sh := sys.NewStore(sys.StoreSpec{Backend: "file", Cap: capN, Dir: dst}, nil)
	st := sh.Store
	opn := c11Ops[lastOp]
	fail := func(key, detail string) {
		c.Violate(key+"|during-"+strings.ReplaceAll(opn, " ", "-"), fmt.Sprintf("%s\nhistory %s, crash %s", detail, cas.Hist, cas.Point), cas)
	}
	// (a) everything listable and visitable
	if err := st.VisitMailboxes(func([]storage.Message) bool { return true }); err != nil {
		fail("visit-fails", "after the crash VisitMailboxes fails for the whole store: "+err.Error())
		return
	}
	got, err := c11Observe(st, c11Boxes)
	if err != nil {
		fail("mailbox-unlistable", "after the crash a mailbox cannot be listed: "+err.Error())
		return
	}
	// (b) untouched mailbox intact
	for _, mb := range c11Boxes {
		if mb != touched && !obsEqual(got[mb], pre[mb]) {
			fail("untouched-mailbox-changed", fmt.Sprintf("mailbox %q was not touched by the interrupted operation but differs after the crash: %d messages, had %d", mb, len(got[mb]), len(pre[mb])))
			return
		}
	}
	// (c) touched mailbox: one of the legal abstract states, every listed message readable
	for _, m := range got[touched] {
		if m.BodyErr != "" {
			fail("listed-but-unreadable", fmt.Sprintf("message %s of mailbox %q is listed but its content cannot be read: %s", m.ID, touched, m.BodyErr))
			return
		}
	}
	legal := [][]sys.ObsMsg{pre[touched], post[touched]}
	if strings.HasPrefix(opn, "add") {
		// cap eviction is a chain of separately visible steps: pre minus its first j messages
		for j := 1; j <= len(pre[touched]); j++ {
			legal = append(legal, pre[touched][j:])
		}
	}
	ok := false
	for _, l := range legal {
		if obsEqual(got[touched], l) {
			ok = true
		}
	}
	if !ok {
		var ids []string
		for _, m := range got[touched] {
			ids = append(ids, m.ID)
		}
		fail("not-atomic", fmt.Sprintf("mailbox %q after the crash (%d messages %v) is neither the state before the operation (%d messages) nor the state after it (%d messages)", touched, len(got[touched]), ids, len(pre[touched]), len(post[touched])))
		return
	}
	// (d) the mailbox accepts new mail
	id, err := st.AddMessage(sys.Delivery(touched, "after@x.test", []string{"t@x.test"}, "after crash", "Subject: after crash\r\n\r\nnew mail\r\n", time.Unix(1800000000, 0)))
	if err != nil {
		fail("rejects-new-mail", fmt.Sprintf("after the crash AddMessage(%q) fails: %v", touched, err))
		return
	}
	m, err := st.GetMessage(touched, id)
	if err != nil || m == nil {
		fail("new-mail-not-listed", fmt.Sprintf("mail delivered after the crash is not retrievable: %v", err))
		return
	}
	if o := sys.Observe(m); o.BodyErr != "" || o.Body != "Subject: after crash\r\n\r\nnew mail\r\n" || o.Size != int64(len(o.Body)) {
		fail("new-mail-unreadable", fmt.Sprintf("mail delivered after the crash does not read back as delivered: %d bytes (size says %d) %s, err %q", len(o.Body), o.Size, clipS(o.Body, 80), o.BodyErr))
		return
	}
	// (e) life goes on from the recovered state (a non-initial state no test starts from): the
	// messages that survived are removed one by one - each removal rewrites the index, shorter
	// every time, over whatever the crash left behind - and after each step a freshly opened
	// store must list exactly what is left, every message readable.
	cur, err := c11Observe(st, []string{touched})
	if err != nil {
		fail("mailbox-unlistable-after-new-mail", "after the crash and one new delivery the mailbox cannot be listed: "+err.Error())
		return
	}
	// removeChain removes want[0], want[1], ... until keep are left; after each removal a freshly
	// opened store must list exactly the rest.
	removeChain := func(sh *sys.StoreH, want []sys.ObsMsg, keep int, how string) ([]sys.ObsMsg, bool) {
		for len(want) > keep {
			victim := want[0]
			if err := sh.Store.RemoveMessage(touched, victim.ID); err != nil {
				fail("later-remove-fails", fmt.Sprintf("after the crash%s RemoveMessage(%q,%s) of a listed message fails: %v", how, touched, victim.ID, err))
				return nil, false
			}
			want = want[1:]
			sh.Reopen()
			after, err := c11Observe(sh.Store, []string{touched})
			if err != nil {
				fail("later-unlistable", fmt.Sprintf("after the crash%s and the removal of %s, a freshly opened store cannot list mailbox %q: %v", how, victim.ID, touched, err))
				return nil, false
			}
			if !obsEqual(after[touched], want) {
				var ids []string
				for _, m := range after[touched] {
					ids = append(ids, m.ID+"/"+m.Subject)
				}
				fail("later-state-wrong", fmt.Sprintf("after the crash%s and the removal of %s, a freshly opened store lists %v for mailbox %q; %d message(s) should be left", how, victim.ID, ids, touched, len(want)))
				return nil, false
			}
		}
		return want, true
	}
	if _, ok := removeChain(sh, cur[touched], 1, ", one new delivery"); !ok {
		return
	}
	// (f) the other order, from a second copy of the crash image: removals first (the first index
	// rewrite after the crash is then a shorter one), new mail afterwards.
	dst2 := sys.FreshDir()
	defer os.RemoveAll(dst2)
	if err := im.materialize(root, dst2); err != nil {
		panic("VERIF-INFRA materialize: " + err.Error())
	}
	sh2 := sys.NewStore(sys.StoreSpec{Backend: "file", Cap: capN, Dir: dst2}, nil)
	want, ok := removeChain(sh2, got[touched], 0, "")
	if !ok {
		return
	}
	if _, err := sh2.Store.AddMessage(sys.Delivery(touched, "after@x.test", []string{"t@x.test"}, "z", "Subject: z\r\n\r\nnew mail\r\n", time.Unix(1800000000, 0))); err != nil {
		fail("rejects-new-mail", fmt.Sprintf("after the crash and the removal of every message AddMessage(%q) fails: %v", touched, err))
		return
	}
	sh2.Reopen()
	after, err := c11Observe(sh2.Store, []string{touched})
	if err != nil || len(after[touched]) != len(want)+1 || after[touched][len(want)].Subject != "z" || after[touched][len(want)].Body != "Subject: z\r\n\r\nnew mail\r\n" {
		fail("later-state-wrong", fmt.Sprintf("after the crash, the removal of every message and one new delivery, a freshly opened store lists %d message(s) for mailbox %q (err=%v); exactly the new one should be there", len(after[touched]), touched, err))
	}
}

func c11Histories(c *fw.Ctx) []c11Hist {
	maxLen := fw.Pick(c, 3, 4)
	var out []c11Hist
	for _, capN := range []int{0, 1, 2} {
		var gen func(cur []int)
		gen = func(cur []int) {
			if len(cur) > 0 {
				out = append(out, c11Hist{Cap: capN, Ops: append([]int{}, cur...)})
			}
			if len(cur) == maxLen {
				return
			}
			for o := range c11Ops {
				gen(append(cur, o))
			}
		}
		gen(nil)
	}
	return out
}

func c11Run(c *fw.Ctx) {
	all := c11Histories(c)
	var mine []c11Hist
	for i, h := range all {
		if c.Mine(i) {
			mine = append(mine, h)
		}
	}
	c11Process(c, mine)
}

func c11Process(c *fw.Ctx, hists []c11Hist) {
	if len(hists) == 0 {
		return
	}
	work := sys.FreshDir()
	defer os.RemoveAll(work)
	base := filepath.Join(work, "stores")
	hf := filepath.Join(work, "hists.json")
	b, _ := json.Marshal(hists)
	_ = os.WriteFile(hf, b, 0o644)
	logPath := filepath.Join(work, "strace.log")
	statesPath := filepath.Join(work, "states.jsonl")
	self, _ := os.Executable()
	cmd := exec.Command("strace", "-f", "-qq", "-xx", "-s", "8000000", "-o", logPath,
		"-e", "trace=openat,open,creat,write,pwrite64,close,mkdirat,mkdir,unlinkat,unlink,rmdir,renameat,renameat2,rename,ftruncate,truncate,linkat,symlinkat,fallocate,readlinkat",
		self, "-test.run", "^TestWorker$", "-test.timeout", "0")
	cmd.Env = append(os.Environ(), "VERIF_CHECK=C11", "VERIF_PART=record", "VERIF_C11_HISTS="+hf, "VERIF_C11_DIR="+base, "VERIF_C11_STATES="+statesPath,
		"VERIF_OUT=", "VERIF_JOURNAL=", "VERIF_REPLAY=", "VERIF_SCRATCH="+filepath.Join(work, "scratch"))
	if out, err := cmd.CombinedOutput(); err != nil {
		c.T.Fatalf("VERIF-INFRA strace/record failed: %v\n%s", err, out)
	}
	tr, err := c11Parse(logPath, base)
	if err != nil {
		c.T.Fatalf("VERIF-INFRA trace parse: %v", err)
	}
	// recorded abstract states
	states := map[[2]int]c11RecOp{}
	sf, err := os.Open(statesPath)
	if err != nil {
		c.T.Fatalf("VERIF-INFRA states: %v", err)
	}
	dec := json.NewDecoder(sf)
	for {
		var r c11RecOp
		if dec.Decode(&r) != nil {
			break
		}
		states[[2]int{r.Hist, r.Op}] = r
	}
	sf.Close()
	for hi, h := range hists {
		if c.Expired() {
			return
		}
		root := filepath.Join(base, "h"+strconv.Itoa(hi))
		last := len(h.Ops) - 1
		rec := states[[2]int{hi, last}]
		if rec.Err != "" {
			c.Violate("record|op-failed", fmt.Sprintf("operation failed without any crash: %s (history %s)", rec.Err, h), c11Case{Hist: h})
			continue
		}
		pre := c11State{c11Boxes[0]: {}, c11Boxes[1]: {}}
		if last > 0 {
			pre = states[[2]int{hi, last - 1}].After
		}
		post := rec.After
		// image before the last op
		im := fsImage{}
		for _, e := range tr.Ops[[2]int{hi, -1}] {
			im.apply(e, -1)
		}
		for oi := 0; oi < last; oi++ {
			for _, e := range tr.Ops[[2]int{hi, oi}] {
				im.apply(e, -1)
			}
		}
		effs := tr.Ops[[2]int{hi, last}]
		if !c.Begin(func() any { return c11Case{Hist: h, Point: "all"} }) {
			continue
		}
		nimg := int64(0)
		eval := func(point string, img fsImage) {
			nimg++
			cas := c11Case{Hist: h, Point: point}
			c.Guard("recover", cas, func() { c11Oracle(c, cas, root, img, rec.Touched, pre, post, h.Cap, h.Ops[last]) })
		}
		eval("before any effect", im.clone())
		for ei := 0; ei < len(effs); ei++ {
			e := effs[ei]
			desc := fmt.Sprintf("effect %d/%d %s %s", ei+1, len(effs), e.Kind, strings.TrimPrefix(e.Path, root))
			// a run of sibling unlinks issued by one RemoveAll walk is unordered on a real file
			// system: every subset of the run is a crash state.
			if e.Kind == "unlink" && e.ByFd {
				run := []fsEffect{e}
				for ei+len(run) < len(effs) && effs[ei+len(run)].Kind == "unlink" && effs[ei+len(run)].ByFd && filepath.Dir(effs[ei+len(run)].Path) == filepath.Dir(e.Path) {
					run = append(run, effs[ei+len(run)])
				}
				if len(run) > 1 && len(run) <= 10 {
					for mask := 1; mask < 1<<len(run)-1; mask++ {
						img := im.clone()
						var names []string
						for j, u := range run {
							if mask&(1<<j) != 0 {
								img.apply(u, -1)
								names = append(names, filepath.Base(u.Path))
							}
						}
						eval(fmt.Sprintf("directory walk of RemoveAll interrupted after unlinking the subset %v", names), img)
					}
					c.Count("unlink_subset_runs", 1)
				}
			}
			if e.Kind == "write" {
				cuts := []int{}
				isIndex := strings.Contains(filepath.Base(e.Path), "index")
				if isIndex || len(e.Data) <= 256 {
					for k := 0; k < len(e.Data); k++ {
						cuts = append(cuts, k)
					}
				} else {
					cuts = append(cuts, 0, 1, len(e.Data)/2, len(e.Data)-1)
					for k := 4096; k < len(e.Data); k += 4096 {
						cuts = append(cuts, k)
					}
				}
				for _, k := range cuts {
					img := im.clone()
					img.apply(e, k)
					eval(fmt.Sprintf("%s torn after %d of %d bytes", desc, k, len(e.Data)), img)
				}
				c.Count("torn_write_images", int64(len(cuts)))
			}
			im.apply(e, -1)
			eval("after "+desc, im.clone())
		}
		c.AddEvals(nimg - 1)
		c.Count("crash_images", nimg)
		c.Count("fs_effects", int64(len(effs)))
		if len(effs) > 0 {
			c.Nontrivial(1)
			if c.WantSample() && len(h.Ops) >= 2 {
				var kinds []string
				for _, e := range effs {
					kinds = append(kinds, e.Kind+" "+strings.TrimPrefix(e.Path, root))
				}
				c.Sample(map[string]any{"history": h.String(), "effects_of_last_op": kinds, "crash_images": nimg})
			}
		}
	}
}

func c11Replay(c *fw.Ctx, raw json.RawMessage) {
	var cas c11Case
	if err := json.Unmarshal(raw, &cas); err != nil {
		c.T.Fatalf("VERIF-INFRA bad case: %v", err)
	}
	c11Process(c, []c11Hist{cas.Hist})
}

func init() {
	fw.Register(&fw.Body{ID: "C11", Part: "crash", Run: c11Run, ReplayCase: c11Replay})
	fw.Register(&fw.Body{ID: "C11", Part: "record", Run: c11Record})
}
