package checks

import (
	"encoding/json"
	"fmt"
	"strings"

	"github.com/inbucket/inbucket/v3/pkg/extension"
	"github.com/inbucket/inbucket/v3/pkg/extension/event"

	"verif/fw"
	"verif/model"
	"verif/sys"
)

// C17 — extension hooks decide exactly what they say; a broken script never loses mail.

// decision a before.mail_from / before.rcpt_to handler variant stands for.
type c17Dec struct {
	Lua  string // handler body ("" = handler absent)
	Kind string // none | allow | deny | defer-explicit
	Code int
	Msg  string
}

var c17SMTPVariants = []c17Dec{
	{"", "none", 0, ""},
	{"return smtp.allow()", "allow", 0, ""},
	{"return smtp.defer()", "defer-explicit", 0, ""},
	{"return smtp.deny()", "deny", 550, "Mail denied by policy"},
	{"return smtp.deny(451, \"t\")", "deny", 451, "t"},
	{"return nil", "none", 0, ""},
	{"return 7", "none", 0, ""},
	{"return \"x\"", "none", 0, ""},
	{"return {}", "none", 0, ""},
	{"error(\"e\")", "none", 0, ""},
	// several verdict values alive at once: each keeps the action, code and text it was built with
	{"local a = smtp.deny(451, \"t\"); local b = smtp.deny(552, \"other\"); return a", "deny", 451, "t"},
	{"local a = smtp.allow(); local b = smtp.deny(); return a", "allow", 0, ""},
	// verdicts prepared once, when the script is loaded
	{"return V451", "deny", 451, "t"},
	// the text is relayed literally, whatever it contains
	{"return smtp.deny(554, \"100% spam %d %s\")", "deny", 554, "100% spam %d %s"},
}

// c17Preamble is put in front of every script: verdicts built at load time.
const c17Preamble = "V451 = smtp.deny(451, \"t\")\nV552 = smtp.deny(552, \"other\")\n"

// what a before.message_stored variant stands for.
type c17MS struct {
	Lua       string
	Replace   bool
	Mailboxes []string // nil = unchanged
	Subject   *string
	From      *string
	To        []string // nil = unchanged
	Fresh     bool     // a fresh inbound_message: everything empty except Mailboxes
}

func sp(s string) *string { return &s }

var c17MSVariants = []c17MS{
	{Lua: ""},
	{Lua: "return nil"},
	{Lua: "return false"},
	{Lua: "return msg", Replace: true}, // handing the message back unchanged IS an answer (it overrides the store policy)
	{Lua: "msg.mailboxes = {\"m2\"}; return msg", Replace: true, Mailboxes: []string{"m2"}},
	{Lua: "msg.mailboxes = {}; return msg", Replace: true, Mailboxes: []string{}},
	{Lua: "msg.mailboxes = {\"m1\", \"m2\"}; return msg", Replace: true, Mailboxes: []string{"m1", "m2"}},
	{Lua: "msg.subject = \"new subj\"; return msg", Replace: true, Subject: sp("new subj")},
	{Lua: "msg.from = address.new(\"N\", \"nf@x.test\"); return msg", Replace: true, From: sp("nf@x.test")},
	{Lua: "msg.to = {address.new(\"\", \"nt@x.test\")}; return msg", Replace: true, To: []string{"nt@x.test"}},
	{Lua: "local m = inbound_message.new(); m.mailboxes = {\"m2\"}; return m", Replace: true, Fresh: true, Mailboxes: []string{"m2"}},
	{Lua: "return 7"},
	{Lua: "error(\"boom\")"},
	{Lua: "msg.from.address = \"evil@x.test\"; error(\"boom\")"},
	{Lua: "msg.to[1].address = \"evil@x.test\"; return nil"},
	{Lua: "msg.subject = \"evil\"; msg.mailboxes = {\"evil\"}; error(\"boom\")"},
	{Lua: "msg.from.address = \"rw@x.test\"; return msg", Replace: true, From: sp("rw@x.test")},
}

var c17AfterVariants = []string{"", "local x = msg.mailbox", "error(\"after boom\")"}

// Go listener placed before or after the Lua one ("first answer wins").
var c17GoVariants = []string{"", "go-first-deny", "go-first-allow", "go-last-deny", "go-last-allow"}

type c17Case struct {
	MF, RT, MS, After int
	Go                string
	Sender            string
	Rcpts             []string
	Backend           string
}

func (c c17Case) script() string {
	var b strings.Builder
	h := func(name, arg, body string) {
		if body != "" {
			fmt.Fprintf(&b, "function inbucket.%s(%s)\n  %s\nend\n", name, arg, body)
		}
	}
	if strings.Contains(c17SMTPVariants[c.MF].Lua+c17SMTPVariants[c.RT].Lua, "V451") {
		b.WriteString(c17Preamble)
	}
	h("before.mail_from_accepted", "session", c17SMTPVariants[c.MF].Lua)
	h("before.rcpt_to_accepted", "session", c17SMTPVariants[c.RT].Lua)
	h("before.message_stored", "msg", c17MSVariants[c.MS].Lua)
	h("after.message_stored", "msg", c17AfterVariants[c.After])
	h("after.message_deleted", "msg", c17AfterVariants[c.After])
	return b.String()
}

func c17Exec(c *fw.Ctx, cas c17Case) (nontrivial bool) {
	smtp := sys.DefaultSMTP()
	smtp.RejectOriginDomains = []string{"badorigin.test"}
	smtp.RejectDomains = []string{"rej.test"}
	smtp.DiscardDomains = []string{"drop.test"}
	pol := model.Policy{DefaultAccept: true, DefaultStore: true, Reject: smtp.RejectDomains, Discard: smtp.DiscardDomains, RejectOrigin: smtp.RejectOriginDomains}
	goDec := func(kind string) func(event.SMTPSession) *event.SMTPResponse {
		return func(event.SMTPSession) *event.SMTPResponse {
			if kind == "deny" {
				return &event.SMTPResponse{Action: event.ActionDeny, ErrorCode: 577, ErrorMsg: "go says no"}
			}
			return &event.SMTPResponse{Action: event.ActionAllow}
		}
	}
	spec := sys.Spec{Store: sys.StoreSpec{Backend: cas.Backend}, SMTP: smtp, Lua: cas.script(), NoHub: true}
	add := func(h *extension.Host) {
		k := strings.TrimPrefix(strings.TrimPrefix(cas.Go, "go-first-"), "go-last-")
		h.Events.BeforeMailFromAccepted.AddListener("go", goDec(k))
		h.Events.BeforeRcptToAccepted.AddListener("go", goDec(k))
	}
	if strings.HasPrefix(cas.Go, "go-first-") {
		spec.PreLua = add
	} else if strings.HasPrefix(cas.Go, "go-last-") {
		spec.PostLua = add
	}
	if spec.Lua == "" {
		spec.Lua = "-- no handlers\n"
	}
	s := sys.New(spec)
	defer s.Close()
	k := s.DialSMTP()
	d := &sys.SMTPDriver{K: k}
	defer func() { k.Close(); <-k.Done }()
	fail := func(key, detail string) {
		c.Violate(key, fmt.Sprintf("%s\nscript:\n%s\ngo listener: %q\n  %s", detail, cas.script(), cas.Go, strings.Join(d.Log, "\n  ")), cas)
	}
	// effective decision = first answer in listener order
	effective := func(lua c17Dec) (kind string, code int, msg string) {
		goKind := strings.TrimPrefix(strings.TrimPrefix(cas.Go, "go-first-"), "go-last-")
		goAns := func() (string, int, string) {
			if goKind == "deny" {
				return "deny", 577, "go says no"
			}
			return "allow", 0, ""
		}
		switch {
		case strings.HasPrefix(cas.Go, "go-first-"):
			return goAns()
		case strings.HasPrefix(cas.Go, "go-last-"):
			if lua.Kind == "none" {
				return goAns()
			}
			// an explicit defer from the first listener IS its answer ("defer falls back to policy;
			// only the first hook that answers counts"): the later listener is not consulted
		}
		return lua.Kind, lua.Code, lua.Msg
	}
	d.Greeting()
	d.Cmd("HELO c.test")
	// MAIL
	r := d.Cmd("MAIL FROM:<" + cas.Sender + ">")
	kind, code, msg := effective(c17SMTPVariants[cas.MF])
	polOK := pol.AcceptOrigin(model.DomainOf(cas.Sender))
	switch kind {
	case "deny":
		if want := fmt.Sprintf("%03d %s\r\n", code, msg); len(r.Lines) != 1 || r.Lines[0] != want {
			fail("mail|deny-not-honoured", fmt.Sprintf("MAIL hook denied with %d %q but the reply was %q", code, msg, r.String()))
		}
		return
	case "allow":
		if r.Class() != 2 {
			fail("mail|allow-not-honoured", "MAIL hook allowed the sender but the reply was "+r.String())
			return
		}
	case "unpinned":
	default:
		if (r.Class() == 2) != polOK {
			fail("mail|fallback-not-policy", fmt.Sprintf("MAIL hook did not answer (%s); policy says accept=%v but the reply was %s", c17SMTPVariants[cas.MF].Lua, polOK, r.String()))
			return
		}
	}
	if r.Class() != 2 {
		return
	}
	// RCPT
	kind, code, msg = effective(c17SMTPVariants[cas.RT])
	for _, rc := range cas.Rcpts {
		r := d.Cmd("RCPT TO:<" + rc + ">")
		polOK := pol.AcceptRcpt(model.DomainOf(rc))
		switch kind {
		case "deny":
			if want := fmt.Sprintf("%03d %s\r\n", code, msg); len(r.Lines) != 1 || r.Lines[0] != want {
				fail("rcpt|deny-not-honoured", fmt.Sprintf("RCPT hook denied with %d %q but the reply was %q", code, msg, r.String()))
				return
			}
		case "allow":
			if r.Class() != 2 {
				fail("rcpt|allow-not-honoured", "RCPT hook allowed the recipient but the reply was "+r.String())
				return
			}
		case "unpinned":
		default:
			if (r.Class() == 2) != polOK {
				fail("rcpt|fallback-not-policy", fmt.Sprintf("RCPT hook did not answer (%s); policy says accept=%v but the reply was %s", c17SMTPVariants[cas.RT].Lua, polOK, r.String()))
				return
			}
		}
	}
	if len(d.Rcpts) == 0 {
		return
	}
	body := "no header block, line one\r\nline two\r\n"
	_, fin := d.Data(body)
	if fin.Class() != 2 {
		fail("data|refused", "a message with accepted recipients was not acknowledged: "+fin.String())
		return
	}
	from, rcpts := d.Delivered()
	ms := c17MSVariants[cas.MS]
	var exp []sys.Expect
	if !ms.Replace {
		for _, a := range rcpts {
			if pol.StoreRcpt(model.DomainOf(a)) {
				exp = append(exp, sys.Expect{Mailbox: model.SimpleMailbox("local", a), From: from, To: rcpts, Data: body})
			}
		}
	} else {
		e := sys.Expect{From: from, To: rcpts, Data: body}
		var boxes []string
		for _, a := range rcpts {
			boxes = append(boxes, model.SimpleMailbox("local", a))
		}
		if ms.Fresh {
			e.From, e.To = "", nil
		}
		if ms.Mailboxes != nil {
			boxes = ms.Mailboxes
		}
		if ms.Subject != nil {
			e.Subject = *ms.Subject
		}
		if ms.From != nil {
			e.From = *ms.From
		}
		if ms.To != nil {
			e.To = ms.To
		}
		for _, b := range boxes {
			x := e
			x.Mailbox = b
			exp = append(exp, x)
		}
	}
	nontrivial = len(exp) > 0
	for _, p := range s.CheckDelivery(model.NewStore(0, 0), exp, "a", "b", "m1", "m2", "evil") {
		fail("stored|"+p[0]+"|"+c17MSClass(ms), "250 was sent, "+p[1])
	}
	return
}

func c17MSClass(ms c17MS) string {
	switch {
	case ms.Lua == "":
		return "no-handler"
	case ms.Replace:
		return "replaced"
	case strings.Contains(ms.Lua, "evil"):
		return "partial-rewrite-then-no-answer"
	}
	return "no-answer"
}

func c17Run(c *fw.Ctx) {
	senders := []string{"s@o.test", "s@badorigin.test", ""} // "" = the null reverse-path MAIL FROM:<>
	rcptSets := [][]string{{"a@keep.test"}, {"a@rej.test"}, {"a@drop.test"}, {"a@keep.test", "b@drop.test"}, {"a@rej.test", "b@keep.test"}}
	n := 0
	run := func(cas c17Case) {
		n++
		if !c.Mine(n) || c.Expired() {
			return
		}
		if !c.Begin(func() any { return cas }) {
			return
		}
		var nt bool
		c.Guard("lua", cas, func() { nt = c17Exec(c, cas) })
		if nt {
			c.Nontrivial(1)
			if c.WantSample() && cas.MS > 2 {
				c.Sample(map[string]any{"case": cas, "script": cas.script()})
			}
		}
	}
	dialogues := func(mf, rt, ms, af int, g string) {
		for _, snd := range senders {
			for _, rs := range rcptSets {
				be := "mem"
				if (mf+rt+ms+len(rs))%4 == 0 {
					be = "file"
				}
				run(c17Case{MF: mf, RT: rt, MS: ms, After: af, Go: g, Sender: snd, Rcpts: rs, Backend: be})
			}
		}
	}
	if c.Thorough() {
		for mf := range c17SMTPVariants {
			for rt := range c17SMTPVariants {
				for ms := range c17MSVariants {
					for af := range c17AfterVariants {
						dialogues(mf, rt, ms, af, "")
					}
				}
			}
		}
	} else {
		// one non-absent handler at a time, then all pairs
		for mf := range c17SMTPVariants {
			dialogues(mf, 0, 0, 0, "")
			for rt := range c17SMTPVariants {
				dialogues(mf, rt, 0, 0, "")
			}
			for ms := range c17MSVariants {
				dialogues(mf, 0, ms, 0, "")
			}
		}
		for rt := range c17SMTPVariants {
			for ms := range c17MSVariants {
				dialogues(0, rt, ms, 0, "")
			}
		}
		for ms := range c17MSVariants {
			for af := range c17AfterVariants {
				dialogues(0, 0, ms, af, "")
			}
		}
	}
	// first answer wins: a Go listener before / after the Lua one
	for _, g := range c17GoVariants[1:] {
		for mf := range c17SMTPVariants {
			dialogues(mf, mf, 0, 0, g)
		}
	}
}

func c17Replay(c *fw.Ctx, raw json.RawMessage) {
	var cas c17Case
	if err := json.Unmarshal(raw, &cas); err != nil {
		c.T.Fatalf("VERIF-INFRA bad case: %v", err)
	}
	c.Guard("lua", cas, func() { c17Exec(c, cas) })
}

func init() {
	fw.Register(&fw.Body{ID: "C17", Part: "seq", Run: c17Run, ReplayCase: c17Replay})
}
