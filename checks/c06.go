package checks

import (
	"encoding/json"
	"fmt"
	"github.com/inbucket/inbucket/v3/pkg/extension"
	"github.com/inbucket/inbucket/v3/pkg/extension/event"
	"math"
	"math/big"
	"sort"
	"strconv"
	"strings"

	"verif/fw"
	"verif/model"
	"verif/sys"
)

// C06 — no message larger than the configured maximum is ever accepted or stored.

type c06Case struct {
	Limit    int    `json:"limit"`
	Size     int    `json:"size"` // LF-normalised size of the data
	Declare  string `json:"declare"`
	Backend  string `json:"backend"`
	ExtAllow bool   `json:"ext_allow,omitempty"` // an extension answers "allow" to every MAIL and RCPT: that overrides the domain rules, never the size limit
	OneLine  bool   `json:"one_line,omitempty"`  // the body is one unfolded line (no line-length limit applies to DATA)
	Discard  bool   `json:"discard,omitempty"`   // the recipient's domain is not stored (accepted, then dropped): the limit applies all the same
	// Blank: "lead" - the data begins with empty lines that make up all but the last 5 bytes of its
	// size; "trail" - it ends with them.  Empty lines are data like any other.
	Blank string `json:"blank,omitempty"`
	// Refusals > 0: a different kind of case - one session in which that many oversized messages
	// are refused one after the other (alternately after the final dot and at MAIL through a
	// truthful SIZE), each followed by a message that fits: "after an oversized message is refused
	// the session remains usable", however often that has happened before.
	Refusals int `json:"refusals,omitempty"`
	// Helo: the client greets with HELO instead of EHLO (the limit is the server's, whatever was
	// negotiated); "helo-ehlo": HELO first, EHLO later
	Greet string `json:"greet,omitempty"`
}

func c06Repeated(c *fw.Ctx, cas c06Case) {
	smtp := sys.DefaultSMTP()
	smtp.MaxMessageBytes = cas.Limit
	s := sys.New(sys.Spec{Store: sys.StoreSpec{Backend: cas.Backend}, SMTP: smtp, NoHub: true})
	defer s.Close()
	k := s.DialSMTP()
	d := &sys.SMTPDriver{K: k}
	defer func() { k.Close(); <-k.Done }()
	fail := func(key, detail string) {
		c.Violate(key, fmt.Sprintf("%s\nlimit=%d backend=%s, one session with %d refusals\n  %s", detail, cas.Limit, cas.Backend, cas.Refusals, strings.Join(d.Log, "\n  ")), cas)
	}
	mo := model.NewStore(0, 0)
	d.Greeting()
	d.Cmd("EHLO c.test")
	big, small := c06Body(cas.Limit+20), c06Body(cas.Limit-2)
	for i := 0; i < cas.Refusals; i++ {
		if i%2 == 0 {
			d.Cmd("MAIL FROM:<s@o.test>")
			d.Cmd("RCPT TO:<big@x.test>")
			mid, fin := d.Data(big)
			if mid.Code != 354 || !fin.OK {
				fail("repeated|data|no-reply", fmt.Sprintf("round %d: DATA dialogue broken: %s / %s", i+1, mid.String(), fin.Why))
				return
			}
			if fin.Class() == 2 {
				fail("repeated|oversize-accepted", fmt.Sprintf("round %d: the oversized message was acknowledged: %s", i+1, fin.String()))
				return
			}
		} else {
			r := d.Cmd("MAIL FROM:<s@o.test> SIZE=" + strconv.Itoa(len(big)))
			if !r.OK {
				fail("repeated|mail|no-reply", fmt.Sprintf("round %d: no reply to MAIL with SIZE: %s", i+1, r.Why))
				return
			}
			if r.Class() == 2 {
				fail("repeated|oversize-accepted-at-mail", fmt.Sprintf("round %d: MAIL with a declared size above the limit was accepted: %s", i+1, r.String()))
				return
			}
		}
		// the session remains usable
		r1 := d.Cmd("MAIL FROM:<s2@o.test>")
		r2 := d.Cmd("RCPT TO:<small@x.test>")
		_, fin := d.Data(small)
		if r1.Class() != 2 || r2.Class() != 2 || !fin.OK || fin.Class() != 2 {
			fail("repeated|followup-refused", fmt.Sprintf("after refusal number %d of this session the message that fits was not accepted: %s / %s / %s %s", i+1, r1.String(), r2.String(), fin.String(), fin.Why))
			return
		}
		from, rcpts := d.Delivered()
		for _, p := range s.CheckDelivery(mo, []sys.Expect{{Mailbox: "small", From: from, To: rcpts, Data: small}}, "big", "small") {
			fail("repeated|"+p[0], p[1])
			return
		}
	}
}

// c06Body builds data whose LF-normalised form has exactly n bytes (lines of ≤50 chars).
func c06Body(n int) string {
	var b strings.Builder
	col := 0
	for b.Len() < n {
		if b.Len() == n-1 || col == 50 {
			b.WriteByte('\n')
			col = 0
			continue
		}
		b.WriteByte('x')
		col++
	}
	return strings.ReplaceAll(b.String(), "\n", "\r\n")
}

func c06Exec(c *fw.Ctx, cas c06Case) (nontrivial bool) {
	if cas.Refusals > 0 {
		c06Repeated(c, cas)
		return true
	}
	smtp := sys.DefaultSMTP()
	smtp.MaxMessageBytes = cas.Limit
	if cas.Discard {
		smtp.DefaultStore = false
	}
	spec := sys.Spec{Store: sys.StoreSpec{Backend: cas.Backend}, SMTP: smtp, NoHub: true}
	if cas.ExtAllow {
		spec.PreLua = func(h *extension.Host) {
			allow := func(event.SMTPSession) *event.SMTPResponse { return &event.SMTPResponse{Action: event.ActionAllow} }
			h.Events.BeforeMailFromAccepted.AddListener("allow-all", allow)
			h.Events.BeforeRcptToAccepted.AddListener("allow-all", allow)
		}
	}
	s := sys.New(spec)
	defer s.Close()
	k := s.DialSMTP()
	d := &sys.SMTPDriver{K: k}
	defer func() { k.Close(); <-k.Done }()
	fail := func(key, detail string) {
		c.Violate(key, fmt.Sprintf("%s\nlimit=%d data=%d bytes (LF-normalised) declared SIZE=%q backend=%s\n  %s", detail, cas.Limit, cas.Size, cas.Declare, cas.Backend, strings.Join(d.Log, "\n  ")), cas)
	}
	body := c06Body(cas.Size)
	if cas.OneLine && cas.Size >= 2 {
		body = strings.Repeat("x", cas.Size-1) + "\r\n"
	}
	if cas.Blank != "" && cas.Size >= 7 {
		text, blanks := "xxxx\r\n", strings.Repeat("\r\n", cas.Size-5)
		if cas.Blank == "lead" {
			body = blanks + text
		} else {
			body = text + blanks
		}
	}
	sLF := len(sys.NormLE(body))
	if body != "" {
		sLF++ // the final line terminator counts as data
	}
	sCRLF := len(body)
	if sLF != cas.Size {
		panic(fmt.Sprintf("VERIF-INFRA body builder: want %d got %d", cas.Size, sLF))
	}
	mo := model.NewStore(0, 0)
	d.Greeting()
	switch cas.Greet {
	case "helo":
		d.Cmd("HELO c.test")
	case "helo-ehlo":
		d.Cmd("HELO c.test")
		d.Cmd("EHLO c.test")
	default:
		d.Cmd("EHLO c.test")
	}
	param := ""
	declared, numeric := int64(0), false
	switch cas.Declare {
	case "absent":
	case "truthful":
		param, declared, numeric = " SIZE="+strconv.Itoa(sCRLF), int64(sCRLF), true
	case "over+body", "body+over+auth", "within+body":
		// the SIZE parameter next to other ESMTP parameters, in either order
		n := cas.Limit + 1
		if cas.Declare == "within+body" {
			n = cas.Limit
		}
		declared, numeric = int64(n), true
		switch cas.Declare {
		case "body+over+auth":
			param = " BODY=7BIT SIZE=" + strconv.Itoa(n) + " AUTH=<>"
		default:
			param = " SIZE=" + strconv.Itoa(n) + " BODY=8BITMIME"
		}
	default:
		param = " SIZE=" + cas.Declare
		if v, err := strconv.ParseInt(cas.Declare, 10, 64); err == nil {
			declared, numeric = v, true
		} else if b, ok := new(big.Int).SetString(cas.Declare, 10); ok && b.Sign() > 0 {
			// a number too large for 64 bits is still a declared size above every limit
			declared, numeric = math.MaxInt64, true
		}
	}
	r := d.Cmd("MAIL FROM:<s@o.test>" + param)
	var exp []sys.Expect
	switch {
	case numeric && declared > int64(cas.Limit) && r.Class() == 2:
		fail("mail|oversize-declared-accepted", fmt.Sprintf("MAIL with SIZE=%d above the limit %d was accepted", declared, cas.Limit))
		return
	case (cas.Declare == "absent" || (numeric && declared <= int64(cas.Limit))) && r.Class() != 2:
		fail("mail|refused", "MAIL refused although the declared size (if any) is within the limit: "+r.String())
		return
	}
	if r.Class() == 2 {
		if rr := d.Cmd("RCPT TO:<big@x.test>"); rr.Class() != 2 {
			fail("rcpt|refused", "RCPT refused: "+rr.String())
			return
		}
		mid, fin := d.Data(body)
		if mid.Code != 354 || !fin.OK {
			fail("data|no-reply", "DATA dialogue broken: "+mid.String()+" / "+fin.Why)
			return
		}
		switch {
		case sLF > cas.Limit && fin.Class() == 2:
			fail("data|oversize-accepted", fmt.Sprintf("a message of %d bytes (%d with CRLF) was acknowledged with %s although the maximum is %d", sLF, sCRLF, fin.String(), cas.Limit))
		case sCRLF <= cas.Limit && fin.Class() != 2:
			fail("data|within-limit-refused", fmt.Sprintf("a message of %d bytes within the limit %d was refused: %s", sCRLF, cas.Limit, fin.String()))
		}
		if fin.Class() == 2 {
			from, rcpts := d.Delivered()
			if !cas.Discard {
				exp = append(exp, sys.Expect{Mailbox: "big", From: from, To: rcpts, Data: body})
			}
			nontrivial = true
		}
	}
	for _, p := range s.CheckDelivery(mo, exp, "big", "small") {
		fail(p[0], p[1])
		return
	}
	// the session must remain usable: a small follow-up transaction is accepted and stored
	// (only meaningful when the limit leaves room for it)
	small := "ok\r\n"
	if len(small) <= cas.Limit {
		r1 := d.Cmd("MAIL FROM:<s2@o.test>")
		r2 := d.Cmd("RCPT TO:<small@x.test>")
		_, fin := d.Data(small)
		if r1.Class() != 2 || r2.Class() != 2 || fin.Class() != 2 {
			fail("followup|refused", fmt.Sprintf("the follow-up transaction was refused: %s / %s / %s", r1.String(), r2.String(), fin.String()))
			return
		}
		from, rcpts := d.Delivered()
		var fexp []sys.Expect
		if !cas.Discard {
			fexp = []sys.Expect{{Mailbox: "small", From: from, To: rcpts, Data: small}}
		}
		for _, p := range s.CheckDelivery(mo, fexp, "big", "small") {
			fail("followup|"+p[0], p[1])
		}
	}
	return
}

func c06Run(c *fw.Ctx) {
	n := 0
	for _, be := range []string{"mem", "file"} {
		for _, L := range []int{10, 1000} {
			n++
			if !c.Mine(n) {
				continue
			}
			cas := c06Case{Limit: L, Backend: be, Refusals: 24}
			if c.Begin(func() any { return cas }) {
				c.Guard("smtp", cas, func() { c06Exec(c, cas) })
				c.Nontrivial(1)
			}
		}
	}
	limits := []int{0, 1, 10, 100, 1000, 5000} // 0: nothing but the empty message fits
	if c.Thorough() {
		limits = append(limits, 2, 3, 4, 5, 50, 51, 52, 65536, 1000000)
	}
	for _, be := range []string{"mem", "file"} {
		for _, L := range limits {
			sizes := map[int]bool{0: true, 2 * L: true, 10 * L: true, L + 20: true, L + 200: true}
			for dlt := -3; dlt <= 3; dlt++ {
				if L+dlt >= 0 {
					sizes[L+dlt] = true
				}
			}
			if c.Thorough() {
				for dlt := -60; dlt <= 60; dlt++ {
					if L+dlt >= 0 {
						sizes[L+dlt] = true
					}
				}
			}
			var szList []int
			for sz := range sizes {
				szList = append(szList, sz)
			}
			sort.Ints(szList) // the enumeration order must be identical in every worker process
			for _, sz := range szList {
				if sz == 1 {
					continue // a 1-byte LF-normalised body would be a lone line terminator; covered by 0 and 2
				}
				for _, decl := range []string{"absent", "truthful", strconv.Itoa(L), strconv.Itoa(L + 1), "1", "2147483648", "x",
					"4294967296", "9223372036854775808", "18446744073709551616", "99999999999999999999999999",
					"over+body", "body+over+auth", "within+body"} {
					n++
					if !c.Mine(n) {
						continue
					}
					for _, variant := range []string{"", "discard", "ext-allow", "one-line", "blank-lead", "blank-trail", "helo", "helo-ehlo"} {
						if variant != "" && be == "file" {
							continue // these variants do not depend on the back-end
						}
						cas := c06Case{Limit: L, Size: sz, Declare: decl, Backend: be, Discard: variant == "discard", ExtAllow: variant == "ext-allow", OneLine: variant == "one-line", Greet: map[bool]string{true: variant}[strings.HasPrefix(variant, "helo")], Blank: strings.TrimPrefix(map[bool]string{true: variant}[strings.HasPrefix(variant, "blank-")], "blank-")}
						if !c.Begin(func() any { return cas }) {
							continue
						}
						var nt bool
						c.Guard("smtp", cas, func() { nt = c06Exec(c, cas) })
						if nt {
							c.Nontrivial(1)
							if c.WantSample() {
								c.Sample(cas)
							}
						}
					}
				}
			}
		}
	}
}

func c06Replay(c *fw.Ctx, raw json.RawMessage) {
	var cas c06Case
	if err := json.Unmarshal(raw, &cas); err != nil {
		c.T.Fatalf("VERIF-INFRA bad case: %v", err)
	}
	c.Guard("smtp", cas, func() { c06Exec(c, cas) })
}

func init() {
	fw.Register(&fw.Body{ID: "C06", Part: "all", Run: c06Run, ReplayCase: c06Replay})
}
