package checks

import (
	"encoding/json"
	"fmt"
	"strings"
	"time"

	"verif/fw"
	"verif/sys"
)

// C18, served clause: the property is about what the web UI *serves*, not only about the
// sanitiser function.  A MIME message (text part, HTML part, one inline part with a Content-ID
// and a file name) is put into the store and fetched through the web UI's message endpoint
// (GET /serve/mailbox/{name}/{id}); the `html` and `text` fields of the answer go through the
// same output oracle as the sanitiser's output: no forbidden element, no event-handler
// attribute, no javascript: URL, only allow-listed style properties - whatever the message's
// MIME metadata (file names, content ids) say.

type c18ServedCase struct {
	Kind string `json:"kind"` // "served"
	HTML string `json:"html"`
	File string `json:"file"` // the inline part's file name parameter, as written in the header
	Text string `json:"text"`
}

// ways to write the inline part's Content-Disposition file name
var c18FileParams = []string{
	`filename="logo.png"`,
	`filename*=utf-8''x.png%22%20onerror%3D%22alert(1)`,
	`filename="x.png\" onmouseover=\"alert(1)"`,
	`filename*=utf-8''a%27b%3Cscript%3Ec.png`,
}

func c18ServedTokens() []string {
	t := append([]string{}, c18HTMLTokens...)
	return append(t, `<img src="cid:img1">`, `<img alt="i" src='cid:img1'>`, `<a href="cid:img1">`, `cid:img1`)
}

func c18ServedSource(cas c18ServedCase) string {
	return "From: s@o.test\r\nTo: u@x.test\r\nSubject: served\r\nMIME-Version: 1.0\r\n" +
		"Content-Type: multipart/related; boundary=\"RR\"\r\n\r\n" +
		"--RR\r\nContent-Type: multipart/alternative; boundary=\"AA\"\r\n\r\n" +
		"--AA\r\nContent-Type: text/plain; charset=utf-8\r\n\r\n" + cas.Text + "\r\n" +
		"--AA\r\nContent-Type: text/html; charset=utf-8\r\n\r\n" + cas.HTML + "\r\n--AA--\r\n" +
		"--RR\r\nContent-Type: image/png\r\nContent-ID: <img1>\r\nContent-Transfer-Encoding: base64\r\n" +
		"Content-Disposition: inline; " + cas.File + "\r\n\r\niVBORw0KGgo=\r\n--RR--\r\n"
}

func c18ServedOne(c *fw.Ctx, s *sys.Sys, cas c18ServedCase) {
	src := c18ServedSource(cas)
	id, err := s.StoreH.Store.AddMessage(sys.Delivery("u", "s@o.test", []string{"u@x.test"}, "served", src, time.Now()))
	if err != nil {
		c.T.Fatalf("VERIF-INFRA AddMessage: %v", err)
	}
	defer func() { _ = s.StoreH.Store.PurgeMessages("u") }()
	r := s.HTTP("GET", "/serve/mailbox/u/"+id, nil)
	if r.Panic != nil {
		c.Violate("served|panic", fmt.Sprintf("the web UI's message handler panicked: %v\nhtml part %q, inline part %s", r.Panic, cas.HTML, cas.File), cas)
		return
	}
	if r.Status != 200 {
		c.Violate("served|status", fmt.Sprintf("web UI message answered %d for an existing message\nhtml part %q, inline part %s", r.Status, cas.HTML, cas.File), cas)
		return
	}
	var out struct {
		HTML string `json:"html"`
		Text string `json:"text"`
	}
	if err := json.Unmarshal(r.Body, &out); err != nil {
		c.Violate("served|not-json", fmt.Sprintf("web UI message answer is not JSON: %v", err), cas)
		return
	}
	show := fmt.Sprintf("html part %q, inline part %s, text part %q", cas.HTML, cas.File, cas.Text)
	c18CheckOut(c, "served-html", show, cas, out.HTML)
	c18CheckOut(c, "served-text", show, cas, out.Text)
}

func c18ServedRun(c *fw.Ctx) {
	s := sys.New(sys.Spec{Store: sys.StoreSpec{Backend: "mem"}, SMTP: sys.DefaultSMTP(), Web: true, NoHub: true})
	defer s.Close()
	toks := c18ServedTokens()
	maxLen := fw.Pick(c, 2, 3)
	n := 0
	var rec func(cur string, l int)
	rec = func(cur string, l int) {
		if l > 0 {
			for fi, f := range c18FileParams {
				n++
				if !c.Mine(n) {
					continue
				}
				if c.Expired() {
					return
				}
				cas := c18ServedCase{Kind: "served", HTML: cur, File: f, Text: c18TextTokens[(n+fi)%len(c18TextTokens)] + " www.a.bc/ <b>t</b>"}
				if !c.Begin(func() any { return cas }) {
					continue
				}
				c.Guard("served", cas, func() { c18ServedOne(c, s, cas) })
				c.Nontrivial(1)
				if c.WantSample() && strings.Contains(cur, "cid:") {
					c.Sample(cas)
				}
			}
		}
		if l == maxLen {
			return
		}
		for _, t := range toks {
			rec(cur+t, l+1)
		}
	}
	rec("", 0)
}

func c18ServedReplay(c *fw.Ctx, raw json.RawMessage) {
	var cas c18ServedCase
	if err := json.Unmarshal(raw, &cas); err != nil {
		c.T.Fatalf("VERIF-INFRA bad case: %v", err)
	}
	if cas.Kind != "served" {
		c.T.Fatalf("VERIF-INFRA not a served case")
	}
	s := sys.New(sys.Spec{Store: sys.StoreSpec{Backend: "mem"}, SMTP: sys.DefaultSMTP(), Web: true, NoHub: true})
	defer s.Close()
	c.Guard("served", cas, func() { c18ServedOne(c, s, cas) })
}

func init() {
	fw.Register(&fw.Body{ID: "C18", Part: "served", Run: c18ServedRun, ReplayCase: c18ServedReplay})
}
