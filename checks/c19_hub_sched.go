//go:build sched

package checks

import (
	"context"
	"fmt"

	"github.com/inbucket/inbucket/v3/pkg/extension"
	"github.com/inbucket/inbucket/v3/pkg/extension/event"
	"github.com/inbucket/inbucket/v3/pkg/msghub"
	"github.com/inbucket/inbucket/v3/pkg/vrt/vsched"

	"verif/fw"
)

// C19, hub clause with a full queue: the hub goroutine is busy inside a listener, its operation
// queue (100 entries) has filled up, and further senders - in the assembled server the extension
// host's event worker, or a monitor joining or leaving - are parked on it when shutdown is
// requested.  Over every schedule of cancel, the hub's last steps and the senders: every sender
// returns ("the message hub stops without blocking"), nothing panics.

func c19HubFullScenario(c *fw.Ctx) schedScenario {
	const id = "G10-hub-stops-while-senders-wait-on-its-full-queue"
	run := func(cfg vsched.Config) (res schedResult) {
		var e *vsched.Exec
		returned := map[string]bool{}
		leaked := inBubble(c.T, func() {
			e = vsched.Run(cfg, func() (func(), []vsched.Thread, func()) {
				ext := extension.NewHost()
				hub := msghub.New(5, ext)
				ctx, cancel := context.WithCancel(context.Background())
				// the first Receive holds the hub until the gate opens
				h1 := &lockedMock{gateAt: 1, gate: make(chan struct{}), entered: make(chan struct{})}
				init := func() {
					hub.AddListener(h1)
					hub.Dispatch(event.MessageMetadata{Mailbox: "a", ID: "0"})
					<-h1.entered
					for i := 0; i < 100; i++ {
						hub.Dispatch(event.MessageMetadata{Mailbox: "a", ID: fmt.Sprintf("q%d", i)})
					}
				}
				sender := func(name string, op func()) vsched.Thread {
					return vsched.Thread{Name: name, F: func() {
						op()
						returned[name] = true
					}}
				}
				late := &lockedMock{}
				ths := []vsched.Thread{
					{Name: "hub", Daemon: true, Early: true, F: func() { hub.Start(ctx) }},
					sender("sender-dispatch", func() { hub.Dispatch(event.MessageMetadata{Mailbox: "a", ID: "extra"}) }),
					sender("sender-join", func() { hub.AddListener(late) }),
					{Name: "stopper", F: func() {
						vsched.Point("stopper: about to request shutdown")
						cancel()
						close(h1.gate)
					}},
				}
				return init, ths, func() { cancel() }
			})
		})
		if leaked != "" && (e == nil || (len(e.Panics) == 0 && !e.Deadlock)) {
			res.Infra = "bubble: " + leaked
			return res
		}
		res.Exec = e
		res.Probs = append(res.Probs, stdProbs(e)...)
		for i := range res.Probs {
			if len(res.Probs[i][0]) >= 9 && res.Probs[i][0][:9] == "deadlock|" {
				res.Probs[i][0] = "sender-never-released-by-stopped-hub"
				res.Probs[i][1] = "shutdown was requested while the hub's queue was full: a sender waiting on the queue never returns although the hub has stopped (" + res.Probs[i][1] + ")"
			}
		}
		res.Outcome = fmt.Sprintf("dispatch-returned=%v join-returned=%v", returned["sender-dispatch"], returned["sender-join"])
		return res
	}
	return schedScenario{ID: id, Bound: fw.Pick(c, 0, 1), Run: run}
}
