package checks

import (
	"encoding/json"
	"fmt"
	"net/http"
	"net/url"
	"strings"
	"time"

	"github.com/inbucket/inbucket/v3/pkg/rest/client"

	"verif/fw"
	"verif/model"
	"verif/sys"
)

// C14 — REST/web APIs and the Go client report and change exactly the store's state.

type c14Name struct {
	Label   string // class of the name (part of violation keys)
	Addr    string // address mail is sent to
	Mailbox string // canonical mailbox (local naming)
	URLName string // what a user puts into the URL / client call
}

var c14Names = []c14Name{
	{"plain", "plain@d.test", "plain", "plain"},
	{"address-form", "Plain+x@d.test", "plain", "Plain+x@d.test"},
	{"name-with-question-mark", "a?b@d.test", "a?b", "a?b"},
	{"name-with-hash", "a#b@d.test", "a#b", "a#b"},
	{"name-with-percent", "a%b@d.test", "a%b", "a%b"},
	{"name-with-ampersand-quote", "a&'b@d.test", "a&'b", "a&'b"},
	{"name-with-slash", "a/b@d.test", "a/b", "a/b"},
}

var c14Ops = []string{
	"deliver",
	"rest.list", "rest.get #1", "rest.get latest", "rest.get nope", "rest.source #1", "rest.source latest", "rest.source nope",
	"rest.seen #1", "rest.seen nope", "rest.delete #1", "rest.delete #2", "rest.delete nope", "rest.purge",
	"web.message #1", "web.message nope", "web.html #1", "web.html nope", "web.source #1", "web.source nope", "web.attach #1", "web.attach nope",
	"client.ListMailbox", "client.GetMessage #1", "client.GetMessage nope", "client.MarkSeen #1", "client.GetMessageSource #1", "client.GetMessageSource nope",
	"client.DeleteMessage #1", "client.DeleteMessage nope", "client.PurgeMailbox", "client.header-methods",
	// a client that resets the connection after the first byte of the body (environment fault):
	// nothing may change, and the answers to every later request are checked as usual
	"abort.list", "abort.get #1",
	// attachment numbers that do not name an attachment of an existing message
	"web.attach-bad #1",
	// the same source fetched ten times over (REST and web UI alternating): nothing may run out
	"source-x10 #1",
	// an id with a slash in it, written into the path as it is (the Go client does that): the
	// request names no message, with or without a base path
	"rest.get no/such", "web.message no/such", "client.GetMessageSource no/such",
	// an id that ends in the id of a stored message behind an escaped slash names no message
	"rest.get x%2F#1", "rest.seen x%2F#1", "rest.delete x%2F#1", "client.DeleteMessage x%2F#1", "web.source x%2F#1",
	// a message leaves the store behind the HTTP layer's back, the way the retention scanner, a POP3
	// session or a limit removes it (straight at the store): every later answer shows the store as
	// it is now
	"bypass.remove #1", "bypass.purge",
	// a message whose received date lies before every earlier one's (straight into the store):
	// listings and 'latest' follow arrival order, dates are metadata.  (Must stay the last op.)
	"deliver-backdated",
}

type c14Case struct {
	Backend  string   `json:"backend"`
	BasePath string   `json:"basepath"`
	Name     int      `json:"name"`
	Slash    bool     `json:"client_base_url_with_trailing_slash,omitempty"`
	Seq      []int    `json:"seq"`
	Ops      []string `json:"ops,omitempty"`
}

func c14Desc(be, bp string, ni int, seq []int) c14Case {
	cas := c14Case{Backend: be, BasePath: bp, Name: ni, Seq: append([]int{}, seq...)}
	for _, i := range seq {
		cas.Ops = append(cas.Ops, c14Ops[i])
	}
	return cas
}

type rtFunc func(*http.Request) (*http.Response, error)

func (f rtFunc) RoundTrip(r *http.Request) (*http.Response, error) { return f(r) }

func c14Exec(c *fw.Ctx, cas c14Case, from int) (key string, extend, nontrivial bool) {
	nm := c14Names[cas.Name]
	s := sys.New(sys.Spec{Store: sys.StoreSpec{Backend: cas.Backend}, SMTP: sys.DefaultSMTP(), BasePath: cas.BasePath, Web: true, NoHub: true})
	defer s.Close()
	mo := model.NewStore(0, 0)
	var ids []string
	var log []string
	extend = true
	cls := nm.Label
	fail := func(key, detail string) {

		c.Violate(key, fmt.Sprintf("%s\nbackend=%s basepath=%q name=%q (mailbox %q)\n  %s", detail, cas.Backend, cas.BasePath, nm.URLName, nm.Mailbox, strings.Join(log, "\n  ")), cas)
		extend = false
	}
	base := "http://verif.test" + cas.BasePath
	if cas.Slash {
		base += "/" // a base URL written with a trailing slash is the same server
	}
	cl, err := client.New(base, client.WithTransport(rtFunc(s.RoundTrip)))
	if err != nil {
		panic("VERIF-INFRA client.New: " + err.Error())
	}
	ndeliv := 0
	deliver := func() {
		ndeliv++
		k := s.DialSMTP()
		d := &sys.SMTPDriver{K: k}
		d.Greeting()
		d.Cmd("HELO c.test")
		d.Cmd("MAIL FROM:<s@o.test>")
		d.Cmd("RCPT TO:<" + nm.Addr + ">")
		body := fmt.Sprintf("From: s@o.test\r\nTo: %s\r\nSubject: subj %d\r\nMIME-Version: 1.0\r\nContent-Type: multipart/mixed; boundary=\"BB\"\r\n\r\n--BB\r\nContent-Type: text/plain\r\n\r\nhello text %d\r\n--BB\r\nContent-Type: text/plain; name=\"a.txt\"\r\nContent-Disposition: attachment; filename=\"a.txt\"\r\n\r\nATTACH %d caf\xe9 cr\xe8me \xff\xfe\r\n--BB--\r\n", nm.Addr, ndeliv, ndeliv, ndeliv)
		_, fin := d.Data(body)
		k.Close()
		<-k.Done
		if fin.Class() != 2 {
			fail("deliver|refused", "delivery refused: "+fin.String()+"\n  "+strings.Join(d.Log, "\n  "))
			return
		}
		before := len(mo.Boxes[nm.Mailbox])
		for _, p := range s.CheckDelivery(mo, []sys.Expect{{Mailbox: nm.Mailbox, From: "s@o.test", To: []string{nm.Addr}, Subject: fmt.Sprintf("subj %d", ndeliv), Data: body}}) {
			fail("deliver|"+p[0], p[1])
			return
		}
		if l := mo.Boxes[nm.Mailbox]; len(l) == before+1 {
			ids = append(ids, l[len(l)-1].ID)
		}
	}
	deliverBackdated := func() {
		ndeliv++
		body := fmt.Sprintf("From: s@o.test\r\nTo: %s\r\nSubject: subj %d\r\nMIME-Version: 1.0\r\nContent-Type: multipart/mixed; boundary=\"BB\"\r\n\r\n--BB\r\nContent-Type: text/plain\r\n\r\nhello text %d\r\n--BB\r\nContent-Type: text/plain; name=\"a.txt\"\r\nContent-Disposition: attachment; filename=\"a.txt\"\r\n\r\nATTACH %d caf\xe9 cr\xe8me \xff\xfe\r\n--BB--\r\n", nm.Addr, ndeliv, ndeliv, ndeliv)
		source := "Return-Path: <s@o.test>\r\nReceived: from c.test ([pipe]) by verif.test (Inbucket)\r\n  for <" + nm.Mailbox + ">; Mon, 1 Jan 2001 00:00:00 +0000\r\n" + body
		date := time.Unix(1500000000-int64(ndeliv)*3600, 0)
		id, err := s.StoreH.Store.AddMessage(sys.Delivery(nm.Mailbox, "s@o.test", []string{nm.Addr}, fmt.Sprintf("subj %d", ndeliv), source, date))
		if err != nil {
			fail("deliver-backdated|error", "AddMessage: "+err.Error())
			return
		}
		mo.Add(&model.Msg{ID: id, Mailbox: nm.Mailbox, From: "s@o.test", To: []string{nm.Addr}, Subject: fmt.Sprintf("subj %d", ndeliv), Body: source, Size: int64(len(source)), DateNS: date.UnixNano()})
		ids = append(ids, id)
	}
	resolve := func(ref string) (id string, m *model.Msg, kind string) {
		switch ref {
		case "latest":
			if m = mo.Latest(nm.Mailbox); m == nil {
				return "latest", nil, "latest-on-empty"
			}
			return "latest", m, "latest"
		case "nope":
			return "nope", nil, "unknown-id"
		case "no/such":
			return "no/such", nil, "unknown-id"
		}
		if strings.HasPrefix(ref, "x%2F#") {
			k := int(ref[5] - '0')
			if k > len(ids) {
				return "x%2Fnever", nil, "unknown-id"
			}
			return "x%2F" + ids[k-1], nil, "unknown-id"
		}
		k := int(ref[1] - '0')
		if k > len(ids) {
			return "never" + ref[1:], nil, "unknown-id"
		}
		id = ids[k-1]
		if m = mo.ByID(nm.Mailbox, id); m == nil {
			return id, nil, "removed-id"
		}
		return id, m, "live-id"
	}
	api := func(kind string) string { // URL prefix for the mailbox
		p := cas.BasePath + "/api/v1/mailbox/"
		if kind == "web" {
			p = cas.BasePath + "/serve/mailbox/"
		}
		return p + url.PathEscape(nm.URLName)
	}
	do := func(method, path string, body []byte) sys.HTTPResp {
		r := s.HTTP(method, path, body)
		log = append(log, fmt.Sprintf("%s %s -> %d %s", method, path, r.Status, clipS(string(r.Body), 80)))
		return r
	}
	hdrMatches := func(h map[string]any, m *model.Msg) string {
		var d []string
		if h["mailbox"] != nm.Mailbox {
			d = append(d, fmt.Sprintf("mailbox %v want %q", h["mailbox"], nm.Mailbox))
		}
		if h["id"] != m.ID {
			d = append(d, fmt.Sprintf("id %v want %q", h["id"], m.ID))
		}
		if h["from"] != "<"+m.From+">" {
			d = append(d, fmt.Sprintf("from %v want %q", h["from"], "<"+m.From+">"))
		}
		if h["subject"] != m.Subject {
			d = append(d, fmt.Sprintf("subject %v want %q", h["subject"], m.Subject))
		}
		if sz, _ := h["size"].(float64); int64(sz) != m.Size {
			d = append(d, fmt.Sprintf("size %v want %d", h["size"], m.Size))
		}
		if sn, _ := h["seen"].(bool); sn != m.Seen {
			d = append(d, fmt.Sprintf("seen %v want %v", h["seen"], m.Seen))
		}
		if pm, _ := h["posix-millis"].(float64); int64(pm) != m.DateNS/1000000 {
			d = append(d, fmt.Sprintf("posix-millis %v want %d", h["posix-millis"], m.DateNS/1000000))
		}
		var to []string
		if l, ok := h["to"].([]any); ok {
			for _, x := range l {
				to = append(to, fmt.Sprint(x))
			}
		}
		var wantTo []string
		for _, t := range m.To {
			wantTo = append(wantTo, "<"+t+">")
		}
		if strings.Join(to, ",") != strings.Join(wantTo, ",") {
			d = append(d, fmt.Sprintf("to %v want %v", to, wantTo))
		}
		return strings.Join(d, "; ")
	}
	ordOf := func(m *model.Msg) int {
		for i, id := range ids {
			if id == m.ID {
				return i + 1
			}
		}
		return 0
	}

	aborted := false // the last request was aborted by its client (hidden-state proxy in the key)
	for si, oi := range cas.Seq {
		check := si >= from
		op := c14Ops[oi]
		f := strings.Fields(op)
		ref := ""
		if len(f) > 1 {
			ref = f[1]
		}
		log = append(log, "-- "+op)
		aborted = false
		vk := func(sym string) string { return f[0] + "|" + cls + "|" + sym }
		switch f[0] {
		case "deliver":
			deliver()
			nontrivial = true
		case "deliver-backdated":
			deliverBackdated()
			nontrivial = true
		case "abort.list", "abort.get":
			path := api("rest")
			if f[0] == "abort.get" {
				id, _, _ := resolve(ref)
				path += "/" + id
			}
			r := s.HTTPAbort("GET", path, 1)
			log = append(log, fmt.Sprintf("GET %s (client aborts after 1 byte) -> %d", path, r.Status))
			aborted = true
			if check && r.Panic != nil {
				fail(vk("panic"), fmt.Sprintf("handler panicked when the client went away: %v", r.Panic))
			}
			continue
		case "rest.list":
			r := do("GET", api("rest"), nil)
			if !check {
				break
			}
			if r.Panic != nil || r.Status != 200 {
				fail(vk(fmt.Sprintf("status-%d", r.Status)), fmt.Sprintf("list answered %d (panic=%v)", r.Status, r.Panic))
				break
			}
			var l []map[string]any
			if err := json.Unmarshal(r.Body, &l); err != nil {
				fail(vk("bad-json"), "list body is not a JSON array: "+err.Error())
				break
			}
			want := mo.Boxes[nm.Mailbox]
			if len(l) != len(want) {
				fail(vk("count"), fmt.Sprintf("list shows %d messages, store holds %d", len(l), len(want)))
				break
			}
			for i := range l {
				if d := hdrMatches(l[i], want[i]); d != "" {
					fail(vk("differs"), fmt.Sprintf("list entry %d: %s", i, d))
					break
				}
			}
		case "rest.get", "web.message":
			id, m, kind := resolve(ref)
			pfx := "rest"
			if f[0] == "web.message" {
				pfx = "web"
			}
			r := do("GET", api(pfx)+"/"+id, nil)
			if !check {
				break
			}
			if r.Panic != nil {
				fail(vk(kind+"|panic"), fmt.Sprintf("handler panicked: %v", r.Panic))
				break
			}
			if m == nil {
				if r.Status != 404 {
					fail(vk(kind+fmt.Sprintf("|status-%d", r.Status)), fmt.Sprintf("%s of a message that does not exist answered %d, want 404", op, r.Status))
				}
				break
			}
			if r.Status != 200 {
				fail(vk(kind+fmt.Sprintf("|status-%d", r.Status)), fmt.Sprintf("%s of an existing message answered %d", op, r.Status))
				break
			}
			var h map[string]any
			if err := json.Unmarshal(r.Body, &h); err != nil {
				fail(vk("bad-json"), "body is not a JSON object: "+err.Error())
				break
			}
			if d := hdrMatches(h, m); d != "" {
				fail(vk(kind+"|differs"), d)
				break
			}
			text := ""
			if f[0] == "rest.get" {
				if b, ok := h["body"].(map[string]any); ok {
					text, _ = b["text"].(string)
				}
			} else {
				text, _ = h["text"].(string)
			}
			if want := fmt.Sprintf("hello text %d", ordOf(m)); !strings.Contains(text, want) {
				fail(vk(kind+"|text"), fmt.Sprintf("text body %q does not contain %q", text, want))
			}
			if a, ok := h["attachments"].([]any); !ok || len(a) != 1 {
				fail(vk(kind+"|attachments"), fmt.Sprintf("attachments %v, want exactly one", h["attachments"]))
			}
		case "rest.source", "web.source":
			id, m, kind := resolve(ref)
			pfx := "rest"
			if f[0] == "web.source" {
				pfx = "web"
			}
			r := do("GET", api(pfx)+"/"+id+"/source", nil)
			if !check {
				break
			}
			if r.Panic != nil {
				fail(vk(kind+"|panic"), fmt.Sprintf("handler panicked: %v", r.Panic))
				break
			}
			if m == nil {
				if r.Status != 404 {
					fail(vk(kind+fmt.Sprintf("|status-%d", r.Status)), fmt.Sprintf("%s of a message that does not exist answered %d, want 404", op, r.Status))
				}
				break
			}
			if r.Status != 200 || string(r.Body) != m.Body {
				fail(vk(kind+"|differs"), fmt.Sprintf("%s answered %d with %d bytes; the store holds %d bytes", op, r.Status, len(r.Body), len(m.Body)))
			}
		case "source-x10":
			id, m, kind := resolve(ref)
			for i := 0; i < 10; i++ {
				pfx := "rest"
				if i%2 == 1 {
					pfx = "web"
				}
				r := do("GET", api(pfx)+"/"+id+"/source", nil)
				if !check {
					continue
				}
				if r.Panic != nil {
					fail(vk(kind+"|panic"), fmt.Sprintf("handler panicked: %v", r.Panic))
					break
				}
				if m == nil {
					if r.Status != 404 {
						fail(vk(kind+fmt.Sprintf("|status-%d", r.Status)), fmt.Sprintf("source fetch %d of a message that does not exist answered %d, want 404", i+1, r.Status))
						break
					}
					continue
				}
				if r.Status != 200 || string(r.Body) != m.Body {
					fail(vk(kind+"|differs"), fmt.Sprintf("source fetch number %d of the same message answered %d with %d bytes; the store holds %d bytes", i+1, r.Status, len(r.Body), len(m.Body)))
					break
				}
			}
		case "web.attach-bad":
			id, m, kind := resolve(ref)
			for _, num := range []string{"-1", "1", "99", "x", "4294967296", "-9223372036854775808", "0x0", "+0"} {
				r := do("GET", api("web")+"/"+id+"/attach/"+num+"/a.txt", nil)
				if !check {
					continue
				}
				if r.Panic != nil {
					fail(vk(kind+"|panic"), fmt.Sprintf("attachment number %q: handler panicked (net/http would drop the connection): %v", num, r.Panic))
					break
				}
				// (a malformed number for a missing message may be refused as malformed or as missing)
				if r.Status == 200 && (m == nil || num != "+0") {
					fail(vk(kind+"|served"), fmt.Sprintf("attachment number %q (the message has exactly one attachment, number 0) was served with status 200: %q", num, clipS(string(r.Body), 60)))
					break
				}
			}
		case "web.html", "web.attach":
			id, m, kind := resolve(ref)
			path := api("web") + "/" + id + "/html"
			if f[0] == "web.attach" {
				path = api("web") + "/" + id + "/attach/0/a.txt"
			}
			r := do("GET", path, nil)
			if !check {
				break
			}
			if r.Panic != nil {
				fail(vk(kind+"|panic"), fmt.Sprintf("handler panicked: %v", r.Panic))
				break
			}
			if m == nil {
				if r.Status != 404 {
					fail(vk(kind+fmt.Sprintf("|status-%d", r.Status)), fmt.Sprintf("%s of a message that does not exist answered %d, want 404", op, r.Status))
				}
				break
			}
			if r.Status != 200 {
				fail(vk(kind+fmt.Sprintf("|status-%d", r.Status)), fmt.Sprintf("%s of an existing message answered %d", op, r.Status))
				break
			}
			if f[0] == "web.attach" {
				if want := fmt.Sprintf("ATTACH %d", ordOf(m)); !strings.Contains(string(r.Body), want) {
					fail(vk(kind+"|content"), fmt.Sprintf("attachment content %q, want %q", r.Body, want))
				}
			}
		case "rest.seen":
			id, m, kind := resolve(ref)
			r := do("PATCH", api("rest")+"/"+id, []byte(`{"seen":true}`))
			if m != nil {
				if r.Status == 200 {
					m.Seen = true
					nontrivial = true
				}
			}
			if !check {
				break
			}
			if r.Panic != nil {
				fail(vk(kind+"|panic"), fmt.Sprintf("handler panicked: %v", r.Panic))
			} else if m == nil && r.Status != 404 {
				fail(vk(kind+fmt.Sprintf("|status-%d", r.Status)), fmt.Sprintf("PATCH seen of a message that does not exist answered %d, want 404", r.Status))
			} else if m != nil && r.Status != 200 {
				fail(vk(kind+fmt.Sprintf("|status-%d", r.Status)), fmt.Sprintf("PATCH seen of an existing message answered %d", r.Status))
			}
		case "rest.delete":
			id, m, kind := resolve(ref)
			r := do("DELETE", api("rest")+"/"+id, nil)
			if m != nil && r.Status == 200 {
				mo.Remove(nm.Mailbox, m)
				nontrivial = true
			}
			if !check {
				break
			}
			if r.Panic != nil {
				fail(vk(kind+"|panic"), fmt.Sprintf("handler panicked: %v", r.Panic))
			} else if m == nil && r.Status != 404 {
				fail(vk(kind+fmt.Sprintf("|status-%d", r.Status)), fmt.Sprintf("DELETE of a message that does not exist answered %d, want 404", r.Status))
			} else if m != nil && r.Status != 200 {
				fail(vk(kind+fmt.Sprintf("|status-%d", r.Status)), fmt.Sprintf("DELETE of an existing message answered %d", r.Status))
			}
		case "bypass.remove":
			id, m, _ := resolve(ref)
			err := s.StoreH.Store.RemoveMessage(nm.Mailbox, id)
			log = append(log, fmt.Sprintf("   [store.RemoveMessage(%q,%q) -> %v]", nm.Mailbox, id, err))
			if m != nil && err == nil {
				mo.Remove(nm.Mailbox, m)
				nontrivial = true
			}
		case "bypass.purge":
			err := s.StoreH.Store.PurgeMessages(nm.Mailbox)
			log = append(log, fmt.Sprintf("   [store.PurgeMessages(%q) -> %v]", nm.Mailbox, err))
			if err == nil && len(mo.Purge(nm.Mailbox)) > 0 {
				nontrivial = true
			}
		case "rest.purge":
			r := do("DELETE", api("rest"), nil)
			if r.Status == 200 {
				if len(mo.Purge(nm.Mailbox)) > 0 {
					nontrivial = true
				}
			}
			if check && (r.Panic != nil || r.Status != 200) {
				fail(vk(fmt.Sprintf("status-%d", r.Status)), fmt.Sprintf("purge answered %d (panic=%v)", r.Status, r.Panic))
			}
		case "client.ListMailbox":
			hs, err := cl.ListMailbox(nm.URLName)
			log = append(log, fmt.Sprintf("   -> %d headers, err=%v", len(hs), err))
			if !check {
				break
			}
			want := mo.Boxes[nm.Mailbox]
			if err != nil || len(hs) != len(want) {
				fail(vk("wrong"), fmt.Sprintf("ListMailbox returned %d headers, err=%v; the store holds %d", len(hs), err, len(want)))
				break
			}
			for i, h := range hs {
				if h.ID != want[i].ID || h.Subject != want[i].Subject || h.Size != want[i].Size || h.Seen != want[i].Seen || h.Mailbox != nm.Mailbox {
					fail(vk("differs"), fmt.Sprintf("ListMailbox entry %d = %+v, store has id=%s subject=%q size=%d seen=%v", i, *h.JSONMessageHeaderV1, want[i].ID, want[i].Subject, want[i].Size, want[i].Seen))
					break
				}
			}
		case "client.GetMessage":
			id, m, kind := resolve(ref)
			msg, err := cl.GetMessage(nm.URLName, id)
			log = append(log, fmt.Sprintf("   -> err=%v", err))
			if !check {
				break
			}
			if m == nil {
				if err == nil {
					fail(vk(kind+"|no-error"), "GetMessage of a message that does not exist returned no error")
				}
				break
			}
			if err != nil || msg.ID != m.ID || msg.Subject != m.Subject || msg.Size != m.Size || msg.Seen != m.Seen || !strings.Contains(msg.Body.Text, fmt.Sprintf("hello text %d", ordOf(m))) {
				fail(vk(kind+"|wrong"), fmt.Sprintf("GetMessage(%q,%q) = %+v, err=%v; store has subject=%q size=%d seen=%v", nm.URLName, id, msg, err, m.Subject, m.Size, m.Seen))
			}
		case "client.MarkSeen":
			id, m, kind := resolve(ref)
			err := cl.MarkSeen(nm.URLName, id)
			log = append(log, fmt.Sprintf("   -> err=%v", err))
			if m != nil && err == nil {
				m.Seen = true
				nontrivial = true
			}
			if !check {
				break
			}
			if m != nil && err != nil {
				fail(vk(kind+"|error"), fmt.Sprintf("MarkSeen(%q,%q) of an existing message failed: %v", nm.URLName, id, err))
			} else if m == nil && err == nil {
				fail(vk(kind+"|no-error"), "MarkSeen of a message that does not exist returned no error")
			}
		case "client.GetMessageSource":
			id, m, kind := resolve(ref)
			buf, err := cl.GetMessageSource(nm.URLName, id)
			log = append(log, fmt.Sprintf("   -> err=%v", err))
			if !check {
				break
			}
			if m == nil {
				if err == nil {
					fail(vk(kind+"|no-error"), "GetMessageSource of a message that does not exist returned no error")
				}
				break
			}
			if err != nil || buf.String() != m.Body {
				fail(vk(kind+"|wrong"), fmt.Sprintf("GetMessageSource(%q,%q): err=%v, %d bytes; store holds %d", nm.URLName, id, err, lenBuf(buf), len(m.Body)))
			}
		case "client.DeleteMessage":
			id, m, kind := resolve(ref)
			err := cl.DeleteMessage(nm.URLName, id)
			log = append(log, fmt.Sprintf("   -> err=%v", err))
			if m != nil && err == nil {
				mo.Remove(nm.Mailbox, m)
				nontrivial = true
			}
			if !check {
				break
			}
			if m != nil && err != nil {
				fail(vk(kind+"|error"), fmt.Sprintf("DeleteMessage(%q,%q) of an existing message failed: %v", nm.URLName, id, err))
			} else if m == nil && err == nil {
				fail(vk(kind+"|no-error"), "DeleteMessage of a message that does not exist returned no error")
			}
		case "client.PurgeMailbox":
			err := cl.PurgeMailbox(nm.URLName)
			log = append(log, fmt.Sprintf("   -> err=%v", err))
			if err == nil && len(mo.Purge(nm.Mailbox)) > 0 {
				nontrivial = true
			}
			if check && err != nil {
				fail(vk("error"), fmt.Sprintf("PurgeMailbox(%q) failed: %v", nm.URLName, err))
			}
		case "client.header-methods":
			// the convenience methods on a listed header: GetMessage, GetSource, Delete
			hs, err := cl.ListMailbox(nm.URLName)
			if err != nil || len(hs) == 0 {
				break
			}
			h := hs[0]
			m := mo.ByID(nm.Mailbox, h.ID)
			if m == nil {
				break // reported by ListMailbox
			}
			msg, e1 := h.GetMessage()
			src, e2 := h.GetSource()
			var e3 error
			if e1 == nil {
				_, e3 = msg.GetSource()
			}
			e4 := h.Delete()
			log = append(log, fmt.Sprintf("   -> GetMessage err=%v GetSource err=%v msg.GetSource err=%v Delete err=%v", e1, e2, e3, e4))
			if e4 == nil {
				mo.Remove(nm.Mailbox, m)
				nontrivial = true
			}
			if !check {
				break
			}
			if e1 != nil || e2 != nil || e3 != nil || e4 != nil || msg.ID != m.ID || src.String() != m.Body {
				fail(vk("wrong"), fmt.Sprintf("header convenience methods on message %q: GetMessage err=%v, GetSource err=%v, Message.GetSource err=%v, Delete err=%v", h.ID, e1, e2, e3, e4))
			}
		}
		if !extend {
			break
		}
		if check {
			// ground truth: the store itself must equal the model after every call
			if d := sys.DiffBox(s.StoreH.Store, mo, nm.Mailbox, false); d != "" {
				fail(f[0]+"|"+cls+"|effect", "after "+op+" the store differs from what the call should have effected: "+d)
				break
			}
		}
	}
	return fmt.Sprintf("%s|n%d|ab%v", mo.Key(), ndeliv, aborted), extend, nontrivial
}

func lenBuf(b interface{ Len() int }) int {
	if b == nil {
		return 0
	}
	defer func() { _ = recover() }()
	return b.Len()
}

func clipS(s string, n int) string {
	s = strings.ReplaceAll(s, "\n", " ")
	if len(s) > n {
		return s[:n] + "…"
	}
	return s
}

func c14Run(c *fw.Ctx) {
	for _, be := range []string{"mem", "file"} {
		for _, bp := range []string{"", "/pre"} {
			for ni := range c14Names {
				if !c.Thorough() && bp == "/pre" && ni > 1 && ni != 6 {
					continue // quick: base path × special names only for plain, address form and slash
				}
				c14Explore(c, be, bp, ni, false, fw.Pick(c, 2, 3), fw.Pick(c, 4, 6))
			}
		}
	}
	// a backdated message before / after an ordinary one, then every operation
	if c.Shard == 0 {
		bd := len(c14Ops) - 1
		for _, be := range []string{"mem", "file"} {
			c14Directed(c, be, 0, []int{0, bd})
			c14Directed(c, be, 0, []int{bd, 0})
			c14Directed(c, be, 0, []int{0, bd, 0})
			// listed, removed behind the HTTP layer's back, then every operation (and the same with
			// two messages, and through the Go client's listing)
			idx := func(op string) int {
				for i, o := range c14Ops {
					if o == op {
						return i
					}
				}
				panic("VERIF-INFRA no op " + op)
			}
			c14Directed(c, be, 0, []int{0, idx("rest.list"), idx("bypass.remove #1")})
			c14Directed(c, be, 0, []int{0, 0, idx("client.ListMailbox"), idx("bypass.remove #1")})
			c14Directed(c, be, 0, []int{0, 0, idx("rest.list"), idx("bypass.purge")})
		}
	}
	// the Go client configured with a base URL that ends in a slash (with and without base path)
	for _, bp := range []string{"", "/pre"} {
		c14Explore(c, "mem", bp, 1, true, 2, fw.Pick(c, 3, 4))
	}
}

// c14Directed runs every history "prefix, X" for X over the whole alphabet (oracle on the last step).
func c14Directed(c *fw.Ctx, be string, ni int, prefix []int) {
	for x := range c14Ops {
		seq := append(append([]int{}, prefix...), x)
		cas := c14Desc(be, "", ni, seq)
		if !c.Begin(func() any { return cas }) {
			continue
		}
		var nt bool
		c.Guard("harness", cas, func() { _, _, nt = c14Exec(c, cas, len(seq)-1) })
		if nt {
			c.Nontrivial(1)
		}
	}
}

func c14Explore(c *fw.Ctx, be, bp string, ni int, slash bool, fullD, maxD int) {
	desc := func(seq []int) c14Case {
		cas := c14Desc(be, bp, ni, seq)
		cas.Slash = slash
		return cas
	}
	nops := len(c14Ops)
	if !c.Thorough() {
		nops-- // quick: the backdated delivery (last op) is covered by the directed histories below
	}
	e := &fw.SeqExplorer{
		C: c, NOps: nops,
		FullDepth: fullD,
		MaxDepth:  maxD,
		Run: func(seq []int) (string, bool, bool) {
			cas := desc(seq)
			var key string
			var ext, nt bool
			if c.Guard("harness", cas, func() { key, ext, nt = c14Exec(c, cas, len(seq)-1) }) {
				return "", false, false
			}
			return key, ext, nt
		},
		Desc: func(seq []int) any { return desc(seq) },
	}
	e.Explore()
}

func c14Replay(c *fw.Ctx, raw json.RawMessage) {
	var cas c14Case
	if err := json.Unmarshal(raw, &cas); err != nil {
		c.T.Fatalf("VERIF-INFRA bad case: %v", err)
	}
	c.Guard("harness", cas, func() { c14Exec(c, cas, 0) })
}

func init() {
	fw.Register(&fw.Body{ID: "C14", Part: "seq", Run: c14Run, ReplayCase: c14Replay})
}
