package checks

import (
	"context"
	"encoding/json"
	"fmt"
	"net/http/httptest"
	"net/mail"
	"net/url"
	"strings"
	"time"

	"github.com/gorilla/websocket"
	"github.com/inbucket/inbucket/v3/pkg/extension/event"

	"verif/fw"
	"verif/sys"
)

// C15, socket clause: the same history/live-event contract, observed where a monitor really
// sits - at the other end of a WebSocket.  The real router is served by a real HTTP server on a
// loopback port; clients upgrade on /api/v1|v2/monitor/messages[/{name}] (the name also written
// as an address: it is a mailbox filter like any other name), the hub is driven directly, and the
// JSON frames each client receives are compared with the model.
//
// A connection is registered with the hub by its handler goroutine some time after the upgrade
// has completed, so the join is atomic at an unknown point between the dial and the end of the
// sequence: the frames must equal the retained history as of ONE such point followed by exactly
// the later events that pass the filter (the oracle of the scheduler clause J1).  The end of a
// sequence is marked by a sentinel message that every filter lets through; nothing is ever
// concluded from a frame NOT arriving within some short time.

var c15SockOps = []string{"dispatch a", "dispatch b", "delete oldest", "delete newest",
	"join v1 all", "join v1 a", "join v2 all", "join v2 a", "join v2 A+tag@x.test", "leave 0"}

type c15SockCase struct {
	History int      `json:"history"`
	Seq     []int    `json:"seq"`
	Ops     []string `json:"ops,omitempty"`
}

func c15SockDesc(h int, seq []int) c15SockCase {
	cas := c15SockCase{History: h, Seq: append([]int{}, seq...)}
	for _, i := range seq {
		cas.Ops = append(cas.Ops, c15SockOps[i])
	}
	return cas
}

type c15SockClient struct {
	kind   string // v1 | v2
	filter string // "" | "a"
	conn   *websocket.Conn
	joined int // index into the event log at which the dial returned
	left   bool
}

// c15SockEvent is one hub operation in the order the harness issued it.
type c15SockEvent struct {
	stored bool
	mb, id string
}

func c15SockExec(c *fw.Ctx, hlen int, seq []int) {
	cas := c15SockDesc(hlen, seq)
	s := sys.New(sys.Spec{Store: sys.StoreSpec{Backend: "mem"}, SMTP: sys.DefaultSMTP(), Web: true, History: hlen})
	defer s.Close()
	ctx, cancel := context.WithCancel(context.Background())
	hubDone := make(chan struct{})
	go func() { s.Hub.Start(ctx); close(hubDone) }()
	srv := httptest.NewServer(s.Router)
	var clients []*c15SockClient
	defer func() {
		for _, cl := range clients {
			_ = cl.conn.Close()
		}
		srv.Close()
		cancel()
		<-hubDone
	}()
	fail := func(key, detail string) {
		c.Violate("socket|"+key, fmt.Sprintf("%s\nhistory length %d, sequence: %s", detail, hlen, strings.Join(cas.Ops, "; ")), cas)
	}
	var log []c15SockEvent
	nid := map[string]int{}
	dispatch := func(mb, id string) {
		s.Hub.Dispatch(event.MessageMetadata{Mailbox: mb, ID: id, From: &mail.Address{Address: "f@x.test"}, To: []*mail.Address{{Address: mb + "@x.test"}}, Subject: "s " + id, Date: time.Unix(1700000000, 0), Size: 10})
		log = append(log, c15SockEvent{true, mb, id})
	}
	// the retained history after the first n events of the log
	history := func(n int) []string {
		var stored []string
		deleted := map[string]bool{}
		for _, e := range log[:n] {
			if e.stored {
				stored = append(stored, e.mb+"/"+e.id)
			} else {
				deleted[e.mb+"/"+e.id] = true
			}
		}
		from := max(len(stored)-hlen, 0)
		var out []string
		for _, k := range stored[from:] {
			if !deleted[k] {
				out = append(out, k)
			}
		}
		return out
	}
	for _, oi := range seq {
		f := strings.Fields(c15SockOps[oi])
		switch f[0] {
		case "dispatch":
			nid[f[1]]++
			dispatch(f[1], fmt.Sprint(nid[f[1]]))
		case "delete":
			h := history(len(log))
			if len(h) == 0 {
				continue
			}
			k := h[0]
			if f[1] == "newest" {
				k = h[len(h)-1]
			}
			p := strings.SplitN(k, "/", 2)
			s.Hub.Delete(p[0], p[1])
			log = append(log, c15SockEvent{false, p[0], p[1]})
		case "join":
			path := "/api/" + f[1] + "/monitor/messages"
			filter := ""
			if f[2] != "all" {
				path += "/" + url.PathEscape(f[2])
				filter = "a"
			}
			// everything issued so far has been processed by the hub before the dial
			s.Hub.Sync()
			conn, resp, err := websocket.DefaultDialer.Dial("ws"+strings.TrimPrefix(srv.URL, "http")+path, nil)
			if err != nil {
				st := 0
				if resp != nil {
					st = resp.StatusCode
				}
				fail("upgrade-refused", fmt.Sprintf("WebSocket upgrade on %s failed: %v (status %d)", path, err, st))
				return
			}
			clients = append(clients, &c15SockClient{kind: f[1], filter: filter, conn: conn, joined: len(log)})
		case "leave":
			if len(clients) > 0 && !clients[0].left {
				_ = clients[0].conn.Close()
				clients[0].left = true
			}
		}
	}
	// end of sequence: a sentinel that every filter lets through
	s.Hub.Sync()
	dispatch("a", "sentinel")
	for ci, cl := range clients {
		if cl.left {
			continue
		}
		var got []string
		for {
			_ = cl.conn.SetReadDeadline(time.Now().Add(60 * time.Second))
			_, data, err := cl.conn.ReadMessage()
			if err != nil {
				fail("stream-broken|"+cl.kind, fmt.Sprintf("client %d (%s, filter %q): the connection ended or stalled before the sentinel event arrived: %v; frames so far %v", ci, cl.kind, cl.filter, err, got))
				return
			}
			ev, err := c15SockParse(cl.kind, data)
			if err != nil {
				fail("frame-malformed|"+cl.kind, fmt.Sprintf("client %d: %v; frame %s", ci, err, clipS(string(data), 300)))
				return
			}
			got = append(got, ev)
			if ev == "stored:a/sentinel" {
				break
			}
		}
		// acceptable: history as of point p (joined <= p <= end) followed by the later events
		ok := false
		var wants []string
		for p := cl.joined; p <= len(log); p++ {
			var want []string
			for _, k := range history(p) {
				if cl.filter == "" || strings.HasPrefix(k, cl.filter+"/") {
					want = append(want, "stored:"+k)
				}
			}
			for _, e := range log[p:] {
				if cl.filter != "" && e.mb != cl.filter {
					continue
				}
				if e.stored {
					want = append(want, "stored:"+e.mb+"/"+e.id)
				} else if cl.kind == "v2" { // the v1 API has no delete events
					want = append(want, "deleted:"+e.mb+"/"+e.id)
				}
			}
			// a history that already contains the sentinel ends there
			for i, w := range want {
				if w == "stored:a/sentinel" {
					want = want[:i+1]
					break
				}
			}
			if strings.Join(want, " ") == strings.Join(got, " ") {
				ok = true
				break
			}
			if len(wants) < 3 {
				wants = append(wants, fmt.Sprint(want))
			}
		}
		if !ok {
			fail("sequence-differs|"+cl.kind, fmt.Sprintf("client %d (%s, filter %q, dialled after %d hub operations) received %v; no join point between its dial and the end explains that, e.g. %s", ci, cl.kind, cl.filter, cl.joined, got, strings.Join(wants, " or ")))
			return
		}
	}
}

// c15SockParse turns one JSON frame into "stored:mb/id" / "deleted:mb/id".
func c15SockParse(kind string, data []byte) (string, error) {
	type hdr struct {
		Mailbox string `json:"mailbox"`
		ID      string `json:"id"`
		Subject string `json:"subject"`
	}
	if kind == "v1" {
		var h hdr
		if err := json.Unmarshal(data, &h); err != nil || h.Mailbox == "" || h.ID == "" {
			return "", fmt.Errorf("v1 frame is not a message header (%v)", err)
		}
		if h.Subject != "s "+h.ID {
			return "", fmt.Errorf("v1 frame for %s/%s carries subject %q", h.Mailbox, h.ID, h.Subject)
		}
		return "stored:" + h.Mailbox + "/" + h.ID, nil
	}
	var e struct {
		Variant    string `json:"variant"`
		Identifier *hdr   `json:"identifier"`
		Header     *hdr   `json:"header"`
	}
	if err := json.Unmarshal(data, &e); err != nil {
		return "", fmt.Errorf("v2 frame is not JSON: %v", err)
	}
	switch {
	case e.Variant == "message-stored" && e.Header != nil && e.Header.Mailbox != "" && e.Header.ID != "":
		if e.Header.Subject != "s "+e.Header.ID {
			return "", fmt.Errorf("v2 frame for %s/%s carries subject %q", e.Header.Mailbox, e.Header.ID, e.Header.Subject)
		}
		return "stored:" + e.Header.Mailbox + "/" + e.Header.ID, nil
	case e.Variant == "message-deleted" && e.Identifier != nil && e.Identifier.Mailbox != "" && e.Identifier.ID != "":
		return "deleted:" + e.Identifier.Mailbox + "/" + e.Identifier.ID, nil
	}
	return "", fmt.Errorf("v2 frame has variant %q without the matching header/identifier", e.Variant)
}

func c15SockRun(c *fw.Ctx) {
	depth := fw.Pick(c, 4, 5)
	n := 0
	for _, hlen := range []int{2, 1} {
		var rec func(seq []int)
		rec = func(seq []int) {
			if len(seq) > 0 {
				n++
				if c.Mine(n) && !c.Expired() {
					cas := c15SockDesc(hlen, seq)
					if c.Begin(func() any { return cas }) {
						c.Guard("socket", cas, func() { c15SockExec(c, hlen, seq) })
						joins := 0
						for _, i := range seq {
							if strings.HasPrefix(c15SockOps[i], "join") {
								joins++
							}
						}
						if joins > 0 {
							c.Nontrivial(1)
							if c.WantSample() {
								c.Sample(cas)
							}
						}
					}
				}
			}
			if len(seq) == depth {
				return
			}
			for o := range c15SockOps {
				rec(append(append([]int{}, seq...), o))
			}
		}
		rec(nil)
	}
}

func c15SockReplay(c *fw.Ctx, raw json.RawMessage) {
	var cas c15SockCase
	if err := json.Unmarshal(raw, &cas); err != nil {
		c.T.Fatalf("VERIF-INFRA bad case: %v", err)
	}
	c.Guard("socket", cas, func() { c15SockExec(c, cas.History, cas.Seq) })
}

func init() {
	fw.Register(&fw.Body{ID: "C15", Part: "socket", Run: c15SockRun, ReplayCase: c15SockReplay})
}
