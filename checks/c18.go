package checks

import (
	"encoding/json"
	"fmt"
	"html"
	"strings"

	"github.com/inbucket/inbucket/v3/pkg/server/web"
	"github.com/inbucket/inbucket/v3/pkg/webui/sanitize"
	xhtml "golang.org/x/net/html"
	"golang.org/x/net/html/atom"

	"verif/fw"
)

// C18 — message HTML and text shown in the web UI cannot carry active content.

var c18HTMLTokens = []string{
	"<script>", "</script>", "<ScRiPt ", "<style>", "</style>", "<iframe src=x>", "<object>", "<form>", "<svg>", "<math>", "<textarea>",
	"<title>", "<noscript>", "<!--", "-->", "<a href=\"", "javascript:x", "jav&#x09;ascript:x", "\" onclick=\"x", "'", "\"", ">", "<",
	"<p style=\"", "style='", "&lt;", "&#60;", "x", "\x00", "position:fixed;",
	// white space between the attribute name and '=' (legal HTML)
	"<p style =\"", "<p STYLE\n= '",
	// characters whose lower-case form has a different byte length (U+023A, an invalid UTF-8 byte)
	"\u023a", "\xe9",
	// URL-valued legacy attributes outside href/src
	"<table background=\"",
	// CDATA section delimiters (in HTML content a bogus comment that ends at the first '>'), and a
	// complete element carrying a forbidden declaration, to be placed inside any of the wrappers
	"<![CDATA[", "]]>", "<b style=\"position:fixed\">",
	// style attributes on elements that policies keep through attribute rules only
	"<map name=m style=\"", "<area shape=rect style='",
}

var c18CSSTokens = []string{"color", "position", "w\\69 dth", ":", ";", "red", "url(javascript:x)", "/*", "*/", "\"", "'", "@import", "{", "}", "\\", "!important", " ", "&#59 ", "&#x3a;", "(", ")", "\\'", "font-family"}

var c18TextTokens = []string{"<", ">", "&", "\"", "http://a.b/c", "www.a.bc/", "(", ")", "\r", "\n", "javascript:x", "a", "'", "<script>"}

var c18Forbidden = map[string]bool{"script": true, "style": true, "iframe": true, "frame": true, "frameset": true, "object": true, "embed": true,
	"applet": true, "form": true, "input": true, "button": true, "textarea": true, "select": true, "link": true, "meta": true, "base": true}

var c18AllowedProps = map[string]bool{}

func init() {
	for _, p := range []string{"align", "background-color", "border", "border-bottom", "border-left", "border-radius", "border-right", "border-top",
		"box-sizing", "clear", "color", "content", "display", "font-family", "font-size", "font-weight", "height", "line-height", "margin",
		"margin-bottom", "margin-left", "margin-right", "margin-top", "max-height", "max-width", "overflow", "padding", "padding-bottom",
		"padding-left", "padding-right", "padding-top", "table-layout", "text-align", "text-decoration", "text-shadow", "vertical-align", "width", "word-break"} {
		c18AllowedProps[p] = true
	}
}

type c18Case struct {
	Kind  string `json:"kind"` // html | css | text
	Input string `json:"input"`
}

func parseFragment(s string) ([]*xhtml.Node, error) {
	ctx := &xhtml.Node{Type: xhtml.ElementNode, Data: "body", DataAtom: atom.Body}
	return xhtml.ParseFragment(strings.NewReader(s), ctx)
}

func walk(n *xhtml.Node, f func(*xhtml.Node)) {
	f(n)
	for c := n.FirstChild; c != nil; c = c.NextSibling {
		walk(c, f)
	}
}

func stripCtl(s string) string {
	return strings.Map(func(r rune) rune {
		if r <= 0x20 || r == 0x7f {
			return -1
		}
		return r
	}, s)
}

// c18CheckHTMLOutput applies the property to sanitised output.
func c18CheckHTMLOutput(c *fw.Ctx, cas c18Case, out string) {
	c18CheckOut(c, cas.Kind, cas.Input, cas, out)
}

// c18CheckOut applies the output oracle; rc is the case a violation records for replay.
func c18CheckOut(c *fw.Ctx, kind, input string, rc any, out string) {
	nodes, err := parseFragment(out)
	if err != nil {
		c.Violate(kind+"|output-unparsable", fmt.Sprintf("sanitised output cannot be parsed: %v\ninput %q\noutput %q", err, input, out), rc)
		return
	}
	for _, root := range nodes {
		walk(root, func(n *xhtml.Node) {
			if n.Type != xhtml.ElementNode {
				return
			}
			name := strings.ToLower(n.Data)
			if c18Forbidden[name] {
				c.Violate(kind+"|element|"+name, fmt.Sprintf("sanitised output contains a <%s> element\ninput %q\noutput %q", name, input, out), rc)
			}
			for _, a := range n.Attr {
				key := strings.ToLower(a.Key)
				if strings.HasPrefix(key, "on") {
					c.Violate(kind+"|event-handler", fmt.Sprintf("sanitised output contains event-handler attribute %s=%q on <%s>\ninput %q\noutput %q", a.Key, a.Val, name, input, out), rc)
				}
				if v := strings.ToLower(stripCtl(a.Val)); strings.HasPrefix(v, "javascript:") && key != "style" {
					c.Violate(kind+"|javascript-url", fmt.Sprintf("sanitised output contains %s=%q on <%s>\ninput %q\noutput %q", a.Key, a.Val, name, input, out), rc)
				}
				if key == "style" {
					for _, p := range cssDeclarations(a.Val) {
						if !c18AllowedProps[p] {
							c.Violate(kind+"|style-property", fmt.Sprintf("style attribute %q carries a declaration for %q, which is not on the allow-list\ninput %q\noutput %q", a.Val, p, input, out), rc)
						}
					}
				}
			}
		})
	}
}

func c18HTML(c *fw.Ctx, cas c18Case) {
	var out string
	var err error
	if c.Guard(cas.Kind, cas, func() { out, err = sanitize.HTML(cas.Input) }) {
		return
	}
	if err != nil {
		c.Violate(cas.Kind+"|sanitizer-error", fmt.Sprintf("sanitize.HTML failed on %q: %v", cas.Input, err), cas)
		return
	}
	c18CheckHTMLOutput(c, cas, out)
}

func c18Text(c *fw.Ctx, cas c18Case) {
	var out string
	if c.Guard("text", cas, func() { out = web.TextToHTML(cas.Input) }) {
		return
	}
	nodes, err := parseFragment(out)
	if err != nil {
		c.Violate("text|output-unparsable", fmt.Sprintf("TextToHTML output cannot be parsed: %v", err), cas)
		return
	}
	var text strings.Builder
	afterBR := false
	for _, root := range nodes {
		walk(root, func(n *xhtml.Node) {
			switch n.Type {
			case xhtml.TextNode:
				d := n.Data
				if afterBR && strings.HasPrefix(d, "\n") {
					d = d[1:]
				}
				afterBR = false
				text.WriteString(d)
			case xhtml.ElementNode:
				switch n.Data {
				case "br":
					text.WriteString("\n")
					afterBR = true
				case "a":
					afterBR = false
					keys := map[string]bool{}
					for _, a := range n.Attr {
						keys[a.Key] = true
						if a.Key == "href" && strings.HasPrefix(strings.ToLower(stripCtl(a.Val)), "javascript:") {
							c.Count("text_anchor_with_javascript_href_observed_not_alarmed", 1)
						}
					}
					if len(n.Attr) != 2 || !keys["href"] || !keys["target"] {
						c.Violate("text|anchor-attributes", fmt.Sprintf("TextToHTML(%q) produced an anchor with attributes %v, want exactly href and target\noutput %q", cas.Input, n.Attr, out), cas)
					}
				default:
					c.Violate("text|element|"+n.Data, fmt.Sprintf("TextToHTML(%q) output contains a <%s> element\noutput %q", cas.Input, n.Data, out), cas)
				}
			case xhtml.CommentNode, xhtml.DoctypeNode:
				c.Violate("text|non-text-node", fmt.Sprintf("TextToHTML(%q) output contains a comment/doctype\noutput %q", cas.Input, out), cas)
			}
		})
	}
	want := strings.ReplaceAll(strings.ReplaceAll(cas.Input, "\r\n", "\n"), "\r", "\n")
	want = strings.ReplaceAll(want, "\x00", "�") // the HTML parser replaces NUL
	if got := text.String(); got != want {
		c.Violate("text|content", fmt.Sprintf("TextToHTML(%q): text content of the rendering is %q, want the original text %q\noutput %q", cas.Input, got, want, out), cas)
	}
}

// ---------------------------------------------------------------------------------------------
// Independent CSS declaration-list parser (CSS Syntax Level 3, §5.4.5 "consume a list of
// declarations"), returning the unescaped lower-cased property names of the declarations a
// browser would accept syntactically (an ident, optional whitespace, a colon).

type cssTok struct {
	kind string // ident at ws : ; { } ( ) [ ] func other eof
	val  string
}

func cssTokenize(s string) []cssTok {
	var out []cssTok
	r := []rune(s)
	i := 0
	isNameStart := func(c rune) bool {
		return c == '_' || c >= 0x80 || (c >= 'a' && c <= 'z') || (c >= 'A' && c <= 'Z')
	}
	isName := func(c rune) bool { return isNameStart(c) || c == '-' || (c >= '0' && c <= '9') }
	isHex := func(c rune) bool { return (c >= '0' && c <= '9') || (c >= 'a' && c <= 'f') || (c >= 'A' && c <= 'F') }
	validEscape := func(j int) bool { return j+1 < len(r) && r[j] == '\\' && r[j+1] != '\n' }
	consumeEscape := func() rune { // r[i] is the char after the backslash
		if i >= len(r) {
			return 0xfffd
		}
		if isHex(r[i]) {
			v := 0
			n := 0
			for i < len(r) && n < 6 && isHex(r[i]) {
				d := r[i]
				switch {
				case d >= '0' && d <= '9':
					v = v*16 + int(d-'0')
				case d >= 'a' && d <= 'f':
					v = v*16 + int(d-'a') + 10
				default:
					v = v*16 + int(d-'A') + 10
				}
				i++
				n++
			}
			if i < len(r) && (r[i] == ' ' || r[i] == '\n' || r[i] == '\t') {
				i++
			}
			if v == 0 || v > 0x10ffff {
				return 0xfffd
			}
			return rune(v)
		}
		c := r[i]
		i++
		return c
	}
	wouldStartIdent := func(j int) bool {
		if j >= len(r) {
			return false
		}
		if r[j] == '-' {
			return j+1 < len(r) && (isNameStart(r[j+1]) || r[j+1] == '-' || validEscape(j+1))
		}
		return isNameStart(r[j]) || validEscape(j)
	}
	consumeName := func() string {
		var b strings.Builder
		for i < len(r) {
			if isName(r[i]) {
				b.WriteRune(r[i])
				i++
			} else if validEscape(i) {
				i++
				b.WriteRune(consumeEscape())
			} else {
				break
			}
		}
		return b.String()
	}
	for i < len(r) {
		c := r[i]
		switch {
		case c == '/' && i+1 < len(r) && r[i+1] == '*':
			j := strings.Index(string(r[i+2:]), "*/")
			if j < 0 {
				i = len(r)
			} else {
				i += 2 + len([]rune(string(r[i+2:])[:j])) + 2
			}
		case c == ' ' || c == '\n' || c == '\t' || c == '\r' || c == '\f':
			for i < len(r) && (r[i] == ' ' || r[i] == '\n' || r[i] == '\t' || r[i] == '\r' || r[i] == '\f') {
				i++
			}
			out = append(out, cssTok{"ws", " "})
		case c == '"' || c == '\'':
			q := c
			i++
			bad := false
			for i < len(r) && r[i] != q {
				if r[i] == '\n' {
					bad = true
					break
				}
				if r[i] == '\\' {
					i++
					if i < len(r) && r[i] == '\n' {
						i++
					} else if i < len(r) {
						consumeEscape()
					}
					continue
				}
				i++
			}
			if !bad && i < len(r) {
				i++ // closing quote
			}
			out = append(out, cssTok{"other", "string"})
		case c == '@':
			i++
			if wouldStartIdent(i) {
				out = append(out, cssTok{"at", consumeName()})
			} else {
				out = append(out, cssTok{"other", "@"})
			}
		case wouldStartIdent(i):
			name := consumeName()
			if i < len(r) && r[i] == '(' {
				i++
				if strings.EqualFold(name, "url") {
					// url( … ): unquoted url token consumes to ')'
					j := i
					for j < len(r) && (r[j] == ' ' || r[j] == '\n' || r[j] == '\t') {
						j++
					}
					if j < len(r) && (r[j] == '"' || r[j] == '\'') {
						out = append(out, cssTok{"func", name})
					} else {
						for i < len(r) && r[i] != ')' {
							if r[i] == '\\' {
								i++
							}
							i++
						}
						if i < len(r) {
							i++
						}
						out = append(out, cssTok{"other", "url"})
					}
				} else {
					out = append(out, cssTok{"func", name})
				}
			} else {
				out = append(out, cssTok{"ident", name})
			}
		case c == ':' || c == ';' || c == '{' || c == '}' || c == '(' || c == ')' || c == '[' || c == ']':
			out = append(out, cssTok{string(c), string(c)})
			i++
		default:
			out = append(out, cssTok{"other", string(c)})
			i++
		}
	}
	return out
}

// cssDeclarations returns the property names of syntactically valid declarations.
func cssDeclarations(style string) []string {
	toks := cssTokenize(style)
	var props []string
	i := 0
	closer := map[string]string{"{": "}", "(": ")", "[": "]", "func": ")"}
	// consumeComponent consumes one component value starting at i.
	var consumeComponent func()
	consumeComponent = func() {
		t := toks[i]
		i++
		if cl, ok := closer[t.kind]; ok {
			for i < len(toks) && toks[i].kind != cl {
				consumeComponent()
			}
			if i < len(toks) {
				i++
			}
		}
	}
	for i < len(toks) {
		t := toks[i]
		switch t.kind {
		case "ws", ";":
			i++
		case "at":
			// consume an at-rule: until ';' or a {}-block
			i++
			for i < len(toks) && toks[i].kind != ";" {
				if toks[i].kind == "{" {
					consumeComponent()
					break
				}
				consumeComponent()
			}
		case "ident":
			name := t.val
			i++
			start := i
			for i < len(toks) && toks[i].kind != ";" {
				consumeComponent()
			}
			decl := toks[start:i]
			j := 0
			for j < len(decl) && decl[j].kind == "ws" {
				j++
			}
			if j < len(decl) && decl[j].kind == ":" {
				props = append(props, strings.ToLower(name))
			}
		default:
			// parse error: consume until the next top-level ';'
			for i < len(toks) && toks[i].kind != ";" {
				consumeComponent()
			}
		}
	}
	return props
}

// ---------------------------------------------------------------------------------------------

func c18Enumerate(c *fw.Ctx, kind string, tokens []string, maxLen int, wrap func(string) string, run func(*fw.Ctx, c18Case)) {
	k := len(tokens)
	block := 0
	for a := 0; a < k; a++ {
		for b := -1; b < k; b++ {
			block++
			if !c.Mine(block) {
				continue
			}
			if c.Expired() {
				return
			}
			prefix := tokens[a]
			depth := 1
			if b >= 0 {
				prefix += tokens[b]
				depth = 2
			}
			if !c.Begin(func() any { return map[string]string{"kind": kind, "prefix": prefix} }) {
				continue
			}
			var evals int64
			var rec func(s string, l int)
			rec = func(s string, l int) {
				evals++
				cas := c18Case{kind, wrap(s)}
				run(c, cas)
				if l >= 3 && c.WantSample() {
					c.Sample(cas)
				}
				if l == maxLen || depth == 1 {
					return
				}
				for _, t := range tokens {
					rec(s+t, l+1)
				}
			}
			rec(prefix, depth)
			c.AddEvals(evals - 1)
			c.Nontrivial(evals)
		}
	}
}

func c18Run(c *fw.Ctx) {
	c18Enumerate(c, "html", c18HTMLTokens, fw.Pick(c, 4, 5), func(s string) string { return s }, c18HTML)
	c18Enumerate(c, "css", c18CSSTokens, fw.Pick(c, 5, 6), func(s string) string {
		return "<p style=\"" + html.EscapeString(s) + "\">x</p>"
	}, c18HTML)
	c18Enumerate(c, "text", c18TextTokens, fw.Pick(c, 5, 6), func(s string) string { return s }, c18Text)
	// directed: a forbidden declaration hidden inside the string value of an allow-listed one, the
	// string containing escaped quotes, escaped backslashes, escaped newlines and comment
	// delimiters in every combination (what a re-serialising filter has to get right)
	if c.Shard == 0 {
		for _, prop := range []string{"color", "font-family", "content"} {
			for _, q := range []string{"\"", "'"} {
				for _, e1 := range []string{"\\'", "\\\"", "\\\\", "\\a ", "/*", "*/", ""} {
					for _, e2 := range []string{"\\'", "\\\"", "\\\\", "*/", ""} {
						for _, hidden := range []string{"; position: fixed; top: 0; color: ", ";position:fixed;", "} position: fixed; {"} {
							val := prop + ": " + q + "a" + e1 + hidden + e2 + q + "; width: 1px"
							cas := c18Case{"css", "<p style=\"" + html.EscapeString(val) + "\">x</p>"}
							if !c.Begin(func() any { return cas }) {
								continue
							}
							c18HTML(c, cas)
							c.Nontrivial(1)
							// and written with the other kind of attribute quotes
							if q == "\"" {
								cas2 := c18Case{"css", "<p style='" + strings.ReplaceAll(val, "'", "&#39;") + "'>x</p>"}
								if c.Begin(func() any { return cas2 }) {
									c18HTML(c, cas2)
									c.Nontrivial(1)
								}
							}
						}
					}
				}
			}
		}
	}
	// texts with one very long line (longer than any reader's or scanner's default buffer), before,
	// after and between every sequence of up to two tokens
	long := strings.Repeat("a", 70000)
	n := 0
	var rec func(cur string, l int)
	rec = func(cur string, l int) {
		for _, in := range []string{long + cur, cur + long, cur + "\n" + long + "\n" + cur, cur + long + "\r\n" + cur + " www.a.bc/ <b>"} {
			n++
			if !c.Mine(n) || c.Expired() {
				continue
			}
			cas := c18Case{"text", in}
			if !c.Begin(func() any { return map[string]any{"kind": "text-long", "tokens": cur} }) {
				continue
			}
			c18Text(c, cas)
			c.Nontrivial(1)
		}
		if l == 2 {
			return
		}
		for _, t := range c18TextTokens {
			rec(cur+t, l+1)
		}
	}
	rec("", 0)
}

func c18Replay(c *fw.Ctx, raw json.RawMessage) {
	var cas c18Case
	if err := json.Unmarshal(raw, &cas); err != nil || cas.Input == "" && cas.Kind == "" {
		c.T.Fatalf("VERIF-INFRA bad case")
	}
	var m map[string]string
	_ = json.Unmarshal(raw, &m)
	if p, ok := m["prefix"]; ok {
		// a block: re-run the block
		toks := map[string][]string{"html": c18HTMLTokens, "css": c18CSSTokens, "text": c18TextTokens}[m["kind"]]
		var rec func(s string, l int)
		rec = func(s string, l int) {
			in := s
			if m["kind"] == "css" {
				in = "<p style=\"" + html.EscapeString(s) + "\">x</p>"
			}
			if m["kind"] == "text" {
				c18Text(c, c18Case{"text", in})
			} else {
				c18HTML(c, c18Case{m["kind"], in})
			}
			if l >= 6 {
				return
			}
			for _, t := range toks {
				rec(s+t, l+1)
			}
		}
		rec(p, 2)
		return
	}
	if cas.Kind == "text" {
		c18Text(c, cas)
	} else {
		c18HTML(c, cas)
	}
}

func init() {
	fw.Register(&fw.Body{ID: "C18", Part: "all", Run: c18Run, ReplayCase: c18Replay})
}
