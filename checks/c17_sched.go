//go:build sched

package checks

import (
	"bufio"
	"encoding/json"
	"fmt"
	"net/mail"
	"strings"
	"sync"

	"github.com/inbucket/inbucket/v3/pkg/extension/event"
	"github.com/inbucket/inbucket/v3/pkg/vrt/vsched"
	lua "github.com/yuin/gopher-lua"

	"verif/fw"
	"verif/sys"
)

// C17, concurrency clause: a Lua handler that pauses inside the VM (channel receive) is entered
// by two callers at once; under every schedule each caller must get the answer its own input
// determines (a pool handing one LState to two callers corrupts it deterministically here).

const c17GateScript = `
function inbucket.before.mail_from_accepted(session)
  local who = session.from.address
  local token = gate:receive()
  if who == "deny@x.test" then
    return smtp.deny(550, "no " .. who)
  end
  if session.from.address ~= who then
    return smtp.deny(599, "state corrupted: " .. who .. " vs " .. session.from.address)
  end
  return smtp.allow()
end
`

// the same handler keeping its datum in a GLOBAL of the Lua state (each pooled state has its own
// globals; handlers resolved once and reused across states would share them)
const c17GateScriptGlobal = `
function inbucket.before.mail_from_accepted(session)
  who = session.from.address
  local token = gate:receive()
  if who == "deny@x.test" then
    return smtp.deny(550, "no " .. who)
  end
  return smtp.allow()
end
`

// the gate handler, which raises an error for one particular sender (without pausing)
const c17GateScriptErr = `
function inbucket.before.mail_from_accepted(session)
  local who = session.from.address
  if who == "boom@x.test" then
    error("boom")
  end
  local token = gate:receive()
  if who == "deny@x.test" then
    return smtp.deny(550, "no " .. who)
  end
  if session.from.address ~= who then
    return smtp.deny(599, "state corrupted: " .. who .. " vs " .. session.from.address)
  end
  return smtp.allow()
end
`

type c17SchedSpec struct {
	ID       string
	Level    string // emit | session
	Global   bool   // the script keeps its datum in a global
	ErrFirst bool   // before the two callers start, one call makes the handler raise an error
	Bound    [2]int
}

func c17SchedSpecs() []c17SchedSpec {
	return []c17SchedSpec{
		{ID: "L1-two-emitters-pausing-handler", Level: "emit", Bound: [2]int{2, 3}},
		{ID: "L3-two-emitters-handler-using-a-global", Level: "emit", Global: true, Bound: [2]int{2, 3}},
		{ID: "L4-two-emitters-after-a-handler-error", Level: "emit", ErrFirst: true, Bound: [2]int{2, 3}},
		{ID: "L2-two-smtp-sessions-pausing-handler", Level: "session", Bound: [2]int{1, 2}},
	}
}

func c17SchedScenario(c *fw.Ctx, sp c17SchedSpec) schedScenario {
	run := func(cfg vsched.Config) (res schedResult) {
		var e *vsched.Exec
		var mu sync.Mutex
		answers := map[string]string{}
		leaked := inBubble(c.T, func() {
			var gate chan lua.LValue
			var s *sys.Sys
			var conns []interface{ Close() error }
			e = vsched.Run(cfg, func() (func(), []vsched.Thread, func()) {
				smtp := sys.DefaultSMTP()
				smtp.RejectOriginDomains = []string{"x.test"} // policy would refuse: allow() must win
				script := c17GateScript
				if sp.Global {
					script = c17GateScriptGlobal
				}
				if sp.ErrFirst {
					script = c17GateScriptErr
				}
				s = sys.New(sys.Spec{Store: sys.StoreSpec{Backend: "mem"}, SMTP: smtp, Lua: script, NoHub: true})
				gate = s.Lua.CreateChannel("gate")
				record := func(who, ans string) { mu.Lock(); answers[who] = ans; mu.Unlock() }
				var ths []vsched.Thread
				for _, who := range []string{"deny@x.test", "ok@x.test"} {
					who := who
					if sp.Level == "emit" {
						ths = append(ths, vsched.Thread{Name: "emit-" + who, F: func() {
							vsched.Point("emitter: about to emit for " + who)
							r := s.Ext.Events.BeforeMailFromAccepted.Emit(&event.SMTPSession{From: &mail.Address{Address: who}, RemoteAddr: "pipe"})
							switch {
							case r == nil:
								record(who, "no answer")
							case r.Action == event.ActionDeny:
								record(who, fmt.Sprintf("deny %d %s", r.ErrorCode, r.ErrorMsg))
							case r.Action == event.ActionAllow:
								record(who, "allow")
							default:
								record(who, "defer")
							}
						}})
						continue
					}
					k := s.DialSMTP()
					conns = append(conns, connCloser{k})
					ths = append(ths, vsched.Thread{Name: "client-" + who, F: func() {
						r := bufio.NewReader(connReader{k})
						_ = r
						d := &sys.SMTPDriver{K: k}
						d.Greeting()
						vsched.Point("client: HELO")
						d.Cmd("HELO c")
						vsched.Point("client: MAIL")
						rep := d.Cmd("MAIL FROM:<" + who + ">")
						record(who, rep.String())
						vsched.Point("client: QUIT")
						d.Cmd("QUIT")
						k.Close()
					}})
				}
				ths = append(ths, vsched.Thread{Name: "releaser", F: func() {
					for i := 0; i < 2; i++ {
						vsched.Point("releaser: about to release one handler")
						gate <- lua.LTrue
					}
				}})
				var init func()
				if sp.ErrFirst {
					// a broken call first: its Lua state goes back to the pool exactly once
					init = func() {
						_ = s.Ext.Events.BeforeMailFromAccepted.Emit(&event.SMTPSession{From: &mail.Address{Address: "boom@x.test"}, RemoteAddr: "pipe"})
					}
				}
				cleanup := func() {
					// release anything still waiting on the gate
					for i := 0; i < 4; i++ {
						select {
						case gate <- lua.LTrue:
						default:
						}
					}
					for _, k := range conns {
						_ = k.Close()
					}
					s.Close()
				}
				return init, ths, cleanup
			})
		})
		if leaked != "" && (e == nil || (len(e.Panics) == 0 && !e.Deadlock)) {
			res.Infra = "bubble: " + leaked
			return res
		}
		res.Exec = e
		res.Probs = append(res.Probs, stdProbs(e)...)
		res.Outcome = fmt.Sprintf("%v", answers)
		if len(res.Probs) > 0 {
			return res
		}
		wantDeny, wantOK := "deny 550 no deny@x.test", "allow"
		if sp.Level == "session" {
			wantDeny, wantOK = "550 no deny@x.test", "250 Roger, accepting mail from <ok@x.test>"
		}
		if answers["deny@x.test"] != wantDeny || answers["ok@x.test"] != wantOK {
			res.Probs = append(res.Probs, [2]string{"wrong-answer", fmt.Sprintf("two concurrent callers of the pausing handler got %q (for deny@x.test, want %q) and %q (for ok@x.test, want %q): the handlers' states interfered", answers["deny@x.test"], wantDeny, answers["ok@x.test"], wantOK)})
		}
		return res
	}
	b := sp.Bound[0]
	if c.Thorough() {
		b = sp.Bound[1]
	}
	return schedScenario{ID: sp.ID, Bound: b, Run: run}
}

type connCloser struct{ k *sys.Conn }

func (c connCloser) Close() error { c.k.Close(); return nil }

type connReader struct{ k *sys.Conn }

func (c connReader) Read(b []byte) (int, error) { return 0, fmt.Errorf("unused") }

func c17SchedRun(c *fw.Ctx) {
	specs := c17SchedSpecs()
	for i, sp := range specs {
		c.Share(len(specs)-i, func() { exploreSched(c, c17SchedScenario(c, sp)) })
	}
}

func c17SchedReplay(c *fw.Ctx, raw json.RawMessage) {
	var cas schedCase
	_ = json.Unmarshal(raw, &cas)
	for _, sp := range c17SchedSpecs() {
		if sp.ID == cas.Scenario {
			replaySched(c, c17SchedScenario(c, sp), raw)
			return
		}
	}
	c.T.Fatalf("VERIF-INFRA unknown scenario %q", cas.Scenario)
}

func init() {
	_ = strings.TrimSpace
	fw.Register(&fw.Body{ID: "C17", Part: "sched", Run: c17SchedRun, ReplayCase: c17SchedReplay})
}
