//go:build sched

package checks

import (
	"encoding/json"
	"fmt"
	"os"
	"strings"
	"testing"
	"testing/synctest"

	"github.com/inbucket/inbucket/v3/pkg/vrt/vsched"

	"verif/fw"
	"verif/sys"
)

func init() {
	// server-side sessions started by the harness are managed goroutines in this build
	sys.Spawn = vsched.Go
}

// schedResult is what one controlled execution yields.
type schedResult struct {
	Exec    *vsched.Exec
	Outcome string      // canonical observable outcome (for the distinct-outcome count)
	Probs   [][2]string // (key, detail)
	Infra   string      // harness failure (leaked goroutines, replay divergence)
}

// schedScenario runs one execution under cfg.  It must be deterministic given cfg.
type schedScenario struct {
	ID     string // scenario id, e.g. "S1-mem-add-remove-add"
	Bound  int    // preemption bound
	Run    func(cfg vsched.Config) schedResult
	Params any // recorded in replay files
}

type schedCase struct {
	Scenario string   `json:"scenario"`
	Params   any      `json:"params,omitempty"`
	Prefix   []int    `json:"prefix"`
	Sel      []uint8  `json:"sel,omitempty"`
	Trace    []string `json:"trace,omitempty"`
}

// inBubble runs f in a synctest bubble and reports goroutines left blocked at its end.
func inBubble(t *testing.T, f func()) (leaked string) {
	defer func() {
		if r := recover(); r != nil {
			if d, ok := r.(vsched.ErrDivergence); ok {
				leaked = "DIVERGENCE " + d.Error()
				return
			}
			leaked = fmt.Sprint(r)
		}
	}()
	synctest.Test(t, func(*testing.T) { f() })
	return ""
}

func traceStrings(e *vsched.Exec) []string {
	var out []string
	for _, s := range e.Trace {
		out = append(out, fmt.Sprintf("%s %s (%d/%d)", s.G, s.Label, s.Chosen, s.N))
	}
	return out
}

// schedShardDepth: nodes at this depth of the choice tree are dealt round-robin to the worker
// processes (everything above is re-executed by every worker but counted once).
const schedShardDepth = 7

type schedNode struct {
	prefix []int
	sel    []uint8
}

// exploreSched is the stateless depth-first search over schedules with iterative preemption
// bounding (Musuvathi & Qadeer): switching away from a goroutine that is still enabled costs
// one preemption; switching at a block is free; multi-ready selects are additional (free)
// choice points; executions always run to completion.
func exploreSched(c *fw.Ctx, sc schedScenario) {
	if only := os.Getenv("VERIF_ONLY_SCENARIO"); only != "" && !strings.HasPrefix(sc.ID, only) {
		return
	}
	if !c.Thorough() {
		exploreSchedBound(c, sc)
		done := int64(sc.Bound)
		if c.Expired() {
			done = -1
		}
		c.Min("completed_preemption_bound", done)
		c.Min("completed_preemption_bound:"+sc.ID, done)
		return
	}
	// thorough: iterative context bounding — complete bound 0, then 1, … so that when the budget
	// cuts the run the evidence names the highest bound explored completely
	top, done := sc.Bound, int64(-1)
	for b := 0; b <= top; b++ {
		sc.Bound = b
		exploreSchedBound(c, sc)
		if c.Expired() {
			break
		}
		done = int64(b)
	}
	c.Min("completed_preemption_bound", done)
	c.Min("completed_preemption_bound:"+sc.ID, done)
}

func exploreSchedBound(c *fw.Ctx, sc schedScenario) {
	level2 := 0
	var explore func(n schedNode, depth int)
	explore = func(n schedNode, depth int) {
		if c.Expired() {
			return
		}
		counted := depth >= schedShardDepth || c.Shard == 0
		cas := schedCase{Scenario: sc.ID, Params: sc.Params, Prefix: n.prefix, Sel: n.sel}
		if counted {
			if !c.Begin(func() any { return cas }) {
				return
			}
		} else if !c.Journal(func() any { return cas }) {
			return
		}
		res := sc.Run(vsched.Config{Prefix: n.prefix, Sel: n.sel})
		if res.Infra != "" {
			c.T.Fatalf("VERIF-INFRA scenario %s: %s (prefix %v sel %v)", sc.ID, res.Infra, n.prefix, n.sel)
		}
		e := res.Exec
		if counted {
			c.Count("schedules", 1)
			c.Count("schedules:"+sc.ID, 1)
			c.Count("transitions", int64(len(e.Trace)))
			c.Count("states", int64(len(e.Trace)-len(n.prefix)+1))
			c.Count("multi_ready_selects", int64(len(e.SelReady)))
			c.Max("max_steps_per_schedule", int64(len(e.Trace)))
			c.SetAdd("outcomes:"+sc.ID, res.Outcome)
			c.Nontrivial(1)
			cas.Trace = traceStrings(e)
			for _, p := range res.Probs {
				c.Violate(sc.ID+"|"+p[0], p[1]+"\nschedule:\n  "+strings.Join(cas.Trace, "\n  "), cas)
			}
			if c.WantSample() && len(n.prefix) > 2 {
				c.Sample(map[string]any{"scenario": sc.ID, "choices": n.prefix, "schedule": cas.Trace, "outcome": res.Outcome})
			}
		}
		// decisions actually used
		choices := make([]int, len(e.Trace))
		for i, s := range e.Trace {
			choices[i] = s.Chosen
		}
		selUsed := make([]uint8, len(e.SelReady))
		copy(selUsed, n.sel)
		child := func(cn schedNode) {
			if depth+1 == schedShardDepth {
				level2++
				if !c.Mine(level2) {
					return
				}
			}
			explore(cn, depth+1)
		}
		pre := 0
		for i, s := range e.Trace {
			if i >= len(n.prefix) {
				for alt := 1; alt < s.N; alt++ {
					cost := pre
					if s.PrevEn {
						cost++
					}
					if cost > sc.Bound {
						continue
					}
					sp := s.SelPos
					if sp > len(selUsed) {
						sp = len(selUsed)
					}
					child(schedNode{prefix: append(append([]int{}, choices[:i]...), alt), sel: append([]uint8{}, selUsed[:sp]...)})
				}
			}
			if s.PrevEn && s.Chosen != 0 {
				pre++
			}
		}
		for k := len(n.sel); k < len(e.SelReady); k++ {
			// the step during which the k-th multi-ready select ran
			step := len(e.Trace) - 1
			for i, s := range e.Trace {
				if s.SelPos > k {
					step = i - 1
					break
				}
			}
			for alt := 1; alt < int(e.SelReady[k]); alt++ {
				child(schedNode{prefix: append([]int{}, choices[:step+1]...), sel: append(append([]uint8{}, selUsed[:k]...), uint8(alt))})
			}
		}
	}
	explore(schedNode{}, 0)
}

// replaySched re-executes one recorded schedule twice and requires identical traces.
func replaySched(c *fw.Ctx, sc schedScenario, raw json.RawMessage) {
	var cas schedCase
	if err := json.Unmarshal(raw, &cas); err != nil {
		c.T.Fatalf("VERIF-INFRA bad case: %v", err)
	}
	r1 := sc.Run(vsched.Config{Prefix: cas.Prefix, Sel: cas.Sel})
	r2 := sc.Run(vsched.Config{Prefix: cas.Prefix, Sel: cas.Sel})
	if r1.Infra != "" || r2.Infra != "" {
		c.T.Fatalf("VERIF-INFRA replay: %s %s", r1.Infra, r2.Infra)
	}
	t1, t2 := strings.Join(traceStrings(r1.Exec), "\n"), strings.Join(traceStrings(r2.Exec), "\n")
	if t1 != t2 {
		c.T.Fatalf("VERIF-INFRA replay of the same schedule produced different traces:\n%s\n--\n%s", t1, t2)
	}
	cas.Trace = traceStrings(r1.Exec)
	for _, p := range r1.Probs {
		c.Violate(sc.ID+"|"+p[0], p[1]+"\nschedule:\n  "+strings.Join(cas.Trace, "\n  "), cas)
	}
}

// stdProbs turns panics / deadlocks of an execution into problems.
func stdProbs(e *vsched.Exec) (probs [][2]string) {
	for i, p := range e.Panics {
		site := fw.PanicSite(e.Stacks[i])
		probs = append(probs, [2]string{"panic|" + site, fmt.Sprintf("a goroutine panicked (the process would have crashed): %s\n%s", p, clipStack(e.Stacks[i]))})
	}
	if e.Deadlock {
		probs = append(probs, [2]string{"deadlock|" + strings.Join(e.Blocked, ","), "no goroutine is enabled but these have not finished: " + strings.Join(e.Blocked, ", ")})
	}
	if e.MaxSteps {
		probs = append(probs, [2]string{"livelock|step-horizon", "the execution did not finish within the step horizon"})
	}
	return probs
}

func clipStack(s string) string {
	var keep []string
	for _, l := range strings.Split(s, "\n") {
		if strings.Contains(l, "inbucket/v3/pkg") && !strings.Contains(l, "vrt/") {
			keep = append(keep, strings.TrimSpace(l))
		}
		if len(keep) > 8 {
			break
		}
	}
	return strings.Join(keep, "\n")
}
