package checks

import (
	"encoding/json"
	"fmt"
	"net/url"
	"strings"
	"unicode"

	"github.com/inbucket/inbucket/v3/pkg/config"
	"github.com/inbucket/inbucket/v3/pkg/policy"

	"verif/fw"
	"verif/sys"
)

// C04 — mailbox naming is canonical: mail to an address is fetchable by that address.

var c04Alpha = []string{"a", "B", "1", ".", "+", "-", "@", "\"", "\\", " ", "[", "]", ":"}

type c04Case struct {
	Mode    string `json:"mode"`
	Address string `json:"address"`
}

func c04Policy(mode string) *policy.Addressing {
	conf := &config.Root{}
	switch mode {
	case "local":
		conf.MailboxNaming = config.LocalNaming
	case "full":
		conf.MailboxNaming = config.FullNaming
	case "domain":
		conf.MailboxNaming = config.DomainNaming
	}
	return &policy.Addressing{Config: conf}
}

func swapCase(s string) string {
	return strings.Map(func(r rune) rune {
		if unicode.IsUpper(r) {
			return unicode.ToLower(r)
		}
		return unicode.ToUpper(r)
	}, s)
}

// nameClass classifies a non-canonical name for the violation key.
func nameClass(n string) string {
	local := n
	if i := strings.LastIndex(n, "@"); i >= 0 {
		local = n[:i]
	}
	switch {
	case n == "":
		return "empty"
	case strings.HasPrefix(n, "["):
		return "address-literal"
	case strings.HasPrefix(local, "."):
		return "leading-period"
	case strings.Contains(local, ".."):
		return "double-period"
	case strings.HasSuffix(local, ".") && local != n:
		return "trailing-period"
	case n != strings.ToLower(n):
		return "upper-case-left"
	}
	return "other"
}

// c04Relations checks the metamorphic relations for one address in one mode.
func c04Relations(c *fw.Ctx, ap *policy.Addressing, mode, addr string) (accepted bool) {
	r, err := ap.NewRecipient(addr)
	if err != nil {
		return false
	}
	cas := c04Case{mode, addr}
	n := r.Mailbox
	if n == "" {
		c.Violate("rel|"+mode+"|empty-name", fmt.Sprintf("RCPT address %q is accepted with an empty mailbox name", addr), cas)
		return true
	}
	// (2) fixed point
	if n2, err := ap.ExtractMailbox(n); err != nil {
		c.Violate("rel|"+mode+"|name-rejected|"+nameClass(n), fmt.Sprintf("address %q names mailbox %q, but asking for mailbox %q fails: %v", addr, n, n, err), cas)
	} else if n2 != n {
		c.Violate("rel|"+mode+"|not-fixed-point|"+nameClass(n), fmt.Sprintf("address %q names mailbox %q, but asking for mailbox %q reaches %q", addr, n, n, n2), cas)
	}
	if n3, err := ap.ExtractMailbox(addr); err != nil || n3 != n {
		c.Violate("rel|"+mode+"|read-name-differs", fmt.Sprintf("address %q: receive-time name %q, read-time name %q (err=%v)", addr, n, n3, err), cas)
	}
	// (3) letter case
	for _, v := range []string{strings.ToUpper(addr), strings.ToLower(addr), swapCase(addr)} {
		if v == addr {
			continue
		}
		if rv, err := ap.NewRecipient(v); err == nil && rv.Mailbox != n {
			cls := "local-part"
			if strings.EqualFold(rv.Mailbox, n) {
				at := strings.LastIndex(n, "@")
				if mode == "domain" || (at >= 0 && n[:at] == rv.Mailbox[:min(at, len(rv.Mailbox))]) {
					cls = "domain-part"
				}
				if strings.Contains(n, "[") {
					cls = "address-literal"
				}
			}
			c.Violate("rel|"+mode+"|case-variant|"+cls, fmt.Sprintf("addresses %q and %q differ only in letter case but name mailboxes %q and %q", addr, v, n, rv.Mailbox), cas)
			break
		}
	}
	// (3b) a plain address (letters, digits, . + - and one @) that is accepted stays accepted in any
	// letter case
	plain := strings.Count(addr, "@") == 1
	for _, ch := range addr {
		if !(ch >= 'a' && ch <= 'z' || ch >= 'A' && ch <= 'Z' || ch >= '0' && ch <= '9' || strings.ContainsRune(".+-@", ch)) {
			plain = false
		}
	}
	if plain {
		for _, v := range []string{strings.ToUpper(addr), strings.ToLower(addr), swapCase(addr)} {
			if _, err := ap.NewRecipient(v); err != nil {
				c.Violate("rel|"+mode+"|case-variant-refused", fmt.Sprintf("address %q is accepted (mailbox %q) but %q, which differs only in letter case, is refused: %v", addr, n, v, err), cas)
				break
			}
		}
	}
	// (4) +extension (plain addresses only: no quoting)
	if !strings.ContainsAny(addr, "\"\\") {
		at := strings.LastIndex(addr, "@")
		if at > 0 {
			local, rest := addr[:at], addr[at:]
			colon := strings.LastIndex(local, ":") // after a source route
			route := ""
			if colon >= 0 && strings.HasPrefix(local, "@") {
				route, local = local[:colon+1], local[colon+1:]
			}
			var variants []string
			if p := strings.Index(local, "+"); p > 0 {
				variants = append(variants, route+local[:p]+rest)
			}
			if local != "" {
				variants = append(variants, route+local+"+zz"+rest)
			}
			for _, v := range variants {
				if rv, err := ap.NewRecipient(v); err == nil && rv.Mailbox != n {
					c.Violate("rel|"+mode+"|plus-extension", fmt.Sprintf("addresses %q and %q differ only in a +extension but name mailboxes %q and %q", addr, v, n, rv.Mailbox), cas)
					break
				}
			}
		}
	}
	return true
}

func c04RelRun(c *fw.Ctx) {
	maxLen := fw.Pick(c, 5, 7)
	aps := map[string]*policy.Addressing{}
	for _, m := range []string{"local", "full", "domain"} {
		aps[m] = c04Policy(m)
	}
	k := len(c04Alpha)
	block := 0
	for p0 := 0; p0 < k; p0++ {
		for p1 := -1; p1 < k; p1++ {
			for p2 := -1; p2 < k; p2++ {
				if p1 == -1 && p2 != -1 {
					continue
				}
				block++
				if !c.Mine(block) {
					continue
				}
				if c.Expired() {
					return
				}
				prefix := c04Alpha[p0]
				if p1 >= 0 {
					prefix += c04Alpha[p1]
				}
				if p2 >= 0 {
					prefix += c04Alpha[p2]
				}
				if !c.Begin(func() any { return map[string]string{"prefix": prefix} }) {
					continue
				}
				var evals, acc int64
				var rec func(s string, l int)
				rec = func(s string, l int) {
					for m, ap := range aps {
						evals++
						if c04Relations(c, ap, m, s) {
							acc++
							if c.WantSample() && l >= 5 {
								c.Sample(c04Case{m, s})
							}
						}
					}
					if l == maxLen {
						return
					}
					for _, a := range c04Alpha {
						rec(s+a, l+1)
					}
				}
				if p2 >= 0 {
					rec(prefix, 3)
				} else {
					// shorter than 3 symbols: only the prefix itself (its extensions are other blocks)
					for m, ap := range aps {
						evals++
						if c04Relations(c, ap, m, prefix) {
							acc++
						}
					}
				}
				c.AddEvals(evals - 1)
				c.Nontrivial(acc)
			}
		}
	}
	// structured addresses
	if c.Shard == 0 {
		for _, a := range c04Structured() {
			for m, ap := range aps {
				if !c.Begin(func() any { return c04Case{m, a} }) {
					continue
				}
				if c04Relations(c, ap, m, a) {
					c.Nontrivial(1)
				}
			}
		}
	}
}

func c04Structured() []string {
	locals := []string{"a", "A", "a.b", "A.b", "a+x", "A+X", "a+x+y", "a-b", "\"a.b\"", "\"a+b\"", "a\\+b", "a_b", "a!#$%&'*=?^`{|}~z", "\".a\"", "\"a.\"", "a.\\.b", "+x", "\"a b\"", "\"a@b\"", "a/b",
		// characters that mean something in a URL: the read interfaces take the name from a path
		"a%41b", "a%2Fb", "a%25b", "a%2Bx", "a%", "a%zz", "a?b", "a#b", "a&b=c", "a;b"}
	domains := []string{"d.test", "D.Test", "sub.D.test", "[1.2.3.4]", "[IPv6:::1]", "[IPv6:2001:DB8::A]", "[::B]", "d.test.", "D.Test.",
		// non-ASCII domains (refused today; if they are ever accepted the same relations apply)
		"bücher.test", "ΣΟΦΟΣ.test", "ırmak.test"}
	var out []string
	for _, l := range locals {
		for _, d := range domains {
			out = append(out, l+"@"+d, "@r.test:"+l+"@"+d)
		}
	}
	// every letter of the alphabet in upper case, in the local part and in the domain (case folding
	// is per letter)
	for L := 'A'; L <= 'Z'; L++ {
		out = append(out, fmt.Sprintf("u%cx@m%cx.test", L, L), fmt.Sprintf("u%cx@d.test", L), fmt.Sprintf("ux@m%cx.test", L), fmt.Sprintf("u%cx@d.test", L+32))
	}
	// addresses at the length limits (local part 64, domain about 250, labels 63): the name is long
	// in every naming mode, and longer than the line limits some protocols recommend
	lab := strings.Repeat("d", 60)
	longDom := lab + "." + lab + "." + lab + "." + lab + ".test"
	long64 := strings.Repeat("l", 60) + "+tag"
	out = append(out, long64+"@d.test", "a@"+longDom, long64+"@"+longDom, strings.Repeat("L", 64)+"@"+strings.ToUpper(longDom))
	return out
}

func c04RelReplay(c *fw.Ctx, raw json.RawMessage) {
	var cas c04Case
	if err := json.Unmarshal(raw, &cas); err != nil || cas.Mode == "" {
		// a block case: re-run the whole block
		var m map[string]string
		_ = json.Unmarshal(raw, &m)
		maxLen := 7
		var rec func(s string)
		rec = func(s string) {
			for _, mode := range []string{"local", "full", "domain"} {
				c04Relations(c, c04Policy(mode), mode, s)
			}
			if len(s) >= maxLen {
				return
			}
			for _, a := range c04Alpha {
				rec(s + a)
			}
		}
		rec(m["prefix"])
		return
	}
	c04Relations(c, c04Policy(cas.Mode), cas.Mode, cas.Address)
}

// ---------------------------------------------------------------------------------------------
// agreement between delivery and every read interface

func c04Agree(c *fw.Ctx, mode, addr string) (nontrivial bool) {
	cas := c04Case{mode, addr}
	s := sys.New(sys.Spec{Store: sys.StoreSpec{Backend: "mem"}, Naming: mode, SMTP: sys.DefaultSMTP(), Web: true, NoHub: true})
	defer s.Close()
	k := s.DialSMTP()
	d := &sys.SMTPDriver{K: k}
	d.Greeting()
	d.Cmd("HELO c.test")
	d.Cmd("MAIL FROM:<s@o.test>")
	r := d.Cmd("RCPT TO:<" + addr + ">")
	if r.Class() != 2 {
		k.Close()
		<-k.Done
		return false
	}
	_, fin := d.Data("Subject: agree\r\n\r\nhello\r\n")
	k.Close()
	<-k.Done
	if fin.Class() != 2 {
		c.Violate("agree|"+mode+"|delivery-refused", fmt.Sprintf("mail to accepted recipient %q was not acknowledged: %s", addr, fin.String()), cas)
		return false
	}
	n, err := s.Policy.ExtractMailbox(addr)
	if err != nil {
		c.Violate("agree|"+mode+"|no-name", fmt.Sprintf("RCPT accepted %q but the naming function rejects it: %v", addr, err), cas)
		return true
	}
	ms, _ := s.StoreH.Store.GetMessages(n)
	if len(ms) != 1 {
		c.Violate("agree|"+mode+"|not-in-named-mailbox", fmt.Sprintf("mail to %q is not in mailbox %q (it lists %d messages)", addr, n, len(ms)), cas)
		return true
	}
	id := ms[0].ID()
	for _, ask := range []struct{ how, name string }{{"by-address", addr}, {"by-name", n}} {
		if ask.name == "" {
			continue
		}
		r := s.HTTP("GET", "/api/v1/mailbox/"+url.PathEscape(ask.name), nil)
		var l []map[string]any
		if r.Status != 200 || json.Unmarshal(r.Body, &l) != nil || len(l) != 1 || l[0]["id"] != id {
			c.Violate("agree|"+mode+"|rest|"+ask.how+"|"+nameClass(n), fmt.Sprintf("REST list asked for %q (%s of %q) answered %d %s; the message is in mailbox %q", ask.name, ask.how, addr, r.Status, clipS(string(r.Body), 100), n), cas)
		}
		w := s.HTTP("GET", "/serve/mailbox/"+url.PathEscape(ask.name)+"/"+id, nil)
		if w.Status != 200 {
			c.Violate("agree|"+mode+"|web|"+ask.how+"|"+nameClass(n), fmt.Sprintf("web UI message asked for %q (%s of %q) answered %d; the message is in mailbox %q", ask.name, ask.how, addr, w.Status, n), cas)
		}
		// every other endpoint that takes a mailbox name: single message, source, HTML and source
		// views, mark-seen
		for _, ep := range []struct{ what, method, path, body string }{
			{"REST message", "GET", "/api/v1/mailbox/" + url.PathEscape(ask.name) + "/" + id, ""},
			{"REST source", "GET", "/api/v1/mailbox/" + url.PathEscape(ask.name) + "/" + id + "/source", ""},
			{"REST mark-seen", "PATCH", "/api/v1/mailbox/" + url.PathEscape(ask.name) + "/" + id, `{"seen":true}`},
			{"web UI source", "GET", "/serve/mailbox/" + url.PathEscape(ask.name) + "/" + id + "/source", ""},
			{"web UI html", "GET", "/serve/mailbox/" + url.PathEscape(ask.name) + "/" + id + "/html", ""},
		} {
			var body []byte
			if ep.body != "" {
				body = []byte(ep.body)
			}
			if e := s.HTTP(ep.method, ep.path, body); e.Status != 200 {
				c.Violate("agree|"+mode+"|"+strings.ReplaceAll(ep.what, " ", "-")+"|"+ask.how+"|"+nameClass(n), fmt.Sprintf("%s asked for %q (%s of %q) answered %d; the message is in mailbox %q", ep.what, ask.name, ask.how, addr, e.Status, n), cas)
			}
		}
		if strings.ContainsAny(ask.name, " ") {
			continue // POP3 arguments are space separated
		}
		p := s.DialPOP3()
		line := func() string { l, _ := p.ReadLine(); return l }
		line()
		_ = p.Send("USER " + ask.name)
		line()
		_ = p.Send("PASS x")
		line()
		_ = p.Send("UIDL 1")
		u := line()
		_ = p.Send("QUIT")
		line()
		p.Close()
		<-p.Done
		if u != "+OK 1 "+id+"\r\n" {
			c.Violate("agree|"+mode+"|pop3|"+ask.how, fmt.Sprintf("POP3 USER %q (%s of %q) does not show the message (UIDL 1 -> %q); it is in mailbox %q", ask.name, ask.how, addr, strings.TrimSpace(u), n), cas)
		}
	}
	// finally the destructive endpoints, by the original address: delete the message, and purge
	if e := s.HTTP("DELETE", "/api/v1/mailbox/"+url.PathEscape(addr)+"/"+id, nil); e.Status != 200 {
		c.Violate("agree|"+mode+"|REST-delete|by-address|"+nameClass(n), fmt.Sprintf("REST delete asked for %q answered %d; the message is in mailbox %q", addr, e.Status, n), cas)
	} else if left, _ := s.StoreH.Store.GetMessages(n); len(left) != 0 {
		c.Violate("agree|"+mode+"|REST-delete|by-address|not-deleted", fmt.Sprintf("REST delete asked for %q answered 200 but mailbox %q still lists %d messages", addr, n, len(left)), cas)
	}
	return true
}

func c04AgreeRun(c *fw.Ctx) {
	n := 0
	for _, mode := range []string{"local", "full", "domain"} {
		for _, a := range c04Structured() {
			n++
			if !c.Mine(n) {
				continue
			}
			cas := c04Case{mode, a}
			if !c.Begin(func() any { return cas }) {
				continue
			}
			var nt bool
			c.Guard("agree", cas, func() { nt = c04Agree(c, mode, a) })
			if nt {
				c.Nontrivial(1)
				if c.WantSample() {
					c.Sample(cas)
				}
			}
		}
	}
}

func c04AgreeReplay(c *fw.Ctx, raw json.RawMessage) {
	var cas c04Case
	if err := json.Unmarshal(raw, &cas); err != nil {
		c.T.Fatalf("VERIF-INFRA bad case: %v", err)
	}
	c.Guard("agree", cas, func() { c04Agree(c, cas.Mode, cas.Address) })
}

func init() {
	fw.Register(&fw.Body{ID: "C04", Part: "rel", Run: c04RelRun, ReplayCase: c04RelReplay})
	fw.Register(&fw.Body{ID: "C04", Part: "agree", Run: c04AgreeRun, ReplayCase: c04AgreeReplay})
}
