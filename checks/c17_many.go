//go:build go1.25

package checks

import (
	"encoding/json"
	"fmt"
	"net/mail"
	"sync"

	lua "github.com/yuin/gopher-lua"

	"github.com/inbucket/inbucket/v3/pkg/extension/event"

	"verif/fw"
	"verif/sys"
)

// C17, many clause: N handler calls are inside the script at once (each parked on a channel the
// script receives from), and one more event arrives: its handler runs and its deny is honoured,
// however many calls are already in flight; then the parked calls are released and each gets its
// own deny.  Inside a testing/synctest bubble: "all N are parked" is exact quiescence.

const c17ManyScript = `
function inbucket.before.rcpt_to_accepted(session)
  local who = session.to[1].address
  if who ~= "probe@x.test" then
    local token = gate:receive()
  end
  return smtp.deny(554, "blocked " .. who)
end
`

type c17ManyCase struct {
	Parked int `json:"parked"`
}

func c17ManyExec(c *fw.Ctx, cas c17ManyCase) {
	leaked := sys.InBubble(c.T, func() {
		s := sys.New(sys.Spec{Store: sys.StoreSpec{Backend: "mem"}, SMTP: sys.DefaultSMTP(), Lua: c17ManyScript, NoHub: true})
		defer s.Close()
		gate := s.Lua.CreateChannel("gate")
		emit := func(who string) string {
			r := s.Ext.Events.BeforeRcptToAccepted.Emit(&event.SMTPSession{From: &mail.Address{Address: "s@o.test"}, To: []*mail.Address{{Address: who}}, RemoteAddr: "pipe"})
			switch {
			case r == nil:
				return "no answer"
			case r.Action == event.ActionDeny:
				return fmt.Sprintf("deny %d %s", r.ErrorCode, r.ErrorMsg)
			case r.Action == event.ActionAllow:
				return "allow"
			}
			return "defer"
		}
		var mu sync.Mutex
		answers := map[string]string{}
		var wg sync.WaitGroup
		for i := 0; i < cas.Parked; i++ {
			who := fmt.Sprintf("u%d@x.test", i)
			wg.Add(1)
			go func() {
				defer wg.Done()
				a := emit(who)
				mu.Lock()
				answers[who] = a
				mu.Unlock()
			}()
		}
		sys.BubbleWait() // every one of them is parked inside the script
		if got, want := emit("probe@x.test"), "deny 554 blocked probe@x.test"; got != want {
			c.Violate("many|hook-not-consulted", fmt.Sprintf("with %d handler calls inside the script, one more RCPT event got %q; the script answers %q to every recipient", cas.Parked, got, want), cas)
		}
		for i := 0; i < cas.Parked; i++ {
			gate <- lua.LTrue
		}
		wg.Wait()
		for i := 0; i < cas.Parked; i++ {
			who := fmt.Sprintf("u%d@x.test", i)
			if want := "deny 554 blocked " + who; answers[who] != want {
				c.Violate("many|wrong-answer", fmt.Sprintf("%d calls were inside the script at once; the call for %s got %q, want %q", cas.Parked, who, answers[who], want), cas)
				break
			}
		}
	})
	if leaked != "" {
		c.Violate("many|wedged", fmt.Sprintf("with %d handler calls in flight the extension host wedged: %s", cas.Parked, leaked), cas)
	}
}

func c17ManyRun(c *fw.Ctx) {
	for i, n := range []int{0, 1, 2, 7, 8, 9, 16, 17, 33, 64} {
		if !c.Mine(i) || c.Expired() {
			continue
		}
		cas := c17ManyCase{Parked: n}
		if !c.Begin(func() any { return cas }) {
			continue
		}
		c.Guard("many", cas, func() { c17ManyExec(c, cas) })
		c.Nontrivial(1)
	}
}

func c17ManyReplay(c *fw.Ctx, raw json.RawMessage) {
	var cas c17ManyCase
	if err := json.Unmarshal(raw, &cas); err != nil {
		c.T.Fatalf("VERIF-INFRA bad case: %v", err)
	}
	c.Guard("many", cas, func() { c17ManyExec(c, cas) })
}

func init() {
	fw.Register(&fw.Body{ID: "C17", Part: "many", Run: c17ManyRun, ReplayCase: c17ManyReplay})
}
