//go:build go1.25

package checks

import (
	"context"
	"crypto/sha1"
	"encoding/hex"
	"encoding/json"
	"fmt"
	"strings"
	"time"

	"github.com/inbucket/inbucket/v3/pkg/config"
	"github.com/inbucket/inbucket/v3/pkg/storage"

	"verif/fw"
	"verif/sys"
)

// C12 — retention removes exactly the expired messages and nothing else.
// Sequential clause with an exact (fake) clock.

// ages relative to the period: 0 = absent, 1 = period+1ns (expired), 2 = exactly the period
// (boundary, not pinned), 3 = period-1ns (young), 4 = brand new
var c12Ages = []string{"absent", "period+1ns", "period", "period-1ns", "new"}

// c12BoxName: the mailboxes of a case are neighbours in the file store's directory tree - the
// second shares the first three hex digits of its name hash with the first (same level-1
// directory, different level-2 directory), the third shares the first six (same level-2
// directory): emptying one of them must leave the others alone.
func c12BoxName(i int) string {
	names := []string{storeBoxes[0], storeBoxes[1], "t15482075"}
	if i < len(names) {
		return names[i]
	}
	return fmt.Sprintf("box%d", i)
}

func init() {
	h := func(s string) string { x := sha1.Sum([]byte(s)); return hex.EncodeToString(x[:]) }
	a, b, t := h(c12BoxName(0)), h(c12BoxName(1)), h(c12BoxName(2))
	if a[:3] != b[:3] || a[:6] == b[:6] || a[:6] != t[:6] || a == t {
		panic("VERIF-INFRA c12 mailbox names no longer have the intended hash shape")
	}
}

type c12Case struct {
	Backend string  `json:"backend"`
	Period  string  `json:"period"`
	Sleep   string  `json:"sleep"`
	Boxes   [][]int `json:"boxes"` // per mailbox, per slot: index into c12Ages
	// Restart (file store): the second mailbox is filled first, then the first slot of the first
	// mailbox, then the server restarts (the id counter starts again), then the rest: the first
	// mailbox's ids are not in ascending order although its messages are in delivery order
	Restart bool `json:"restart,omitempty"`
}

func c12Exec(c *fw.Ctx, cas c12Case) (nontrivial bool) {
	leaked := sys.InBubble(c.T, func() {
		period, _ := time.ParseDuration(cas.Period)
		sleep, _ := time.ParseDuration(cas.Sleep)
		sh := sys.NewStore(sys.StoreSpec{Backend: cas.Backend}, nil)
		defer sh.Close()
		st := sh.Store
		now := time.Now()
		type msg struct {
			mb, id string
			age    int
		}
		var all []msg
		order := make([]int, len(cas.Boxes))
		for i := range order {
			order[i] = i
			if cas.Restart {
				order[i] = len(cas.Boxes) - 1 - i
			}
		}
		for _, bi := range order {
			slots := cas.Boxes[bi]
			mb := c12BoxName(bi)
			for si, a := range slots {
				if cas.Restart && bi == 0 && si == 1 {
					sh.ReopenInBubble()
					st = sh.Store
				}
				var date time.Time
				switch c12Ages[a] {
				case "absent":
					continue
				case "period+1ns":
					date = now.Add(-period - time.Nanosecond)
				case "period":
					date = now.Add(-period)
				case "period-1ns":
					date = now.Add(-period + time.Nanosecond)
				case "new":
					date = now
				}
				id, err := st.AddMessage(sys.Delivery(mb, "f@x.test", []string{"t@x.test"}, fmt.Sprintf("m%d", si), "Subject: r\r\n\r\nretention\r\n", date))
				if err != nil {
					panic("VERIF-INFRA add: " + err.Error())
				}
				all = append(all, msg{mb, id, a})
			}
		}
		// one more mailbox in every case, whose name is written with upper-case letters (the stores
		// keep names as given - an extension may choose such a name): an expired and a young message
		for _, a := range []int{1, 4} {
			date := now
			if c12Ages[a] == "period+1ns" {
				date = now.Add(-period - time.Nanosecond)
			}
			id, err := st.AddMessage(sys.Delivery("Archive@Example.COM", "f@x.test", []string{"t@x.test"}, "mixed", "Subject: r\r\n\r\nretention\r\n", date))
			if err != nil {
				panic("VERIF-INFRA add: " + err.Error())
			}
			all = append(all, msg{"Archive@Example.COM", id, a})
		}
		rs := storage.NewRetentionScanner(config.Storage{RetentionPeriod: period, RetentionSleep: sleep}, st)
		err := rs.DoScan(context.Background())
		fail := func(key, detail string) {
			c.Violate(cas.Backend+"|"+key, fmt.Sprintf("%s\nperiod %s, sleep between mailboxes %s, ages per mailbox %v", detail, cas.Period, cas.Sleep, c12Show(cas.Boxes)), cas)
		}
		if err != nil {
			fail("scan-error", "DoScan returned an error: "+err.Error())
			return
		}
		for _, m := range all {
			got, gerr := st.GetMessage(m.mb, m.id)
			present := gerr == nil && got != nil
			switch c12Ages[m.age] {
			case "period+1ns":
				nontrivial = true
				if present {
					fail("expired-kept", fmt.Sprintf("message %s/%s is older than the retention period by 1ns but survived the scan", m.mb, m.id))
				}
			case "period-1ns", "new":
				if !present {
					fail("young-removed|"+c12Ages[m.age], fmt.Sprintf("message %s/%s is younger than the retention period (%s) but was removed", m.mb, m.id, c12Ages[m.age]))
				}
			}
		}
	})
	if leaked != "" {
		c.Violate(cas.Backend+"|goroutine-left-blocked", "a goroutine is blocked forever after the scan: "+leaked, cas)
	}
	return nontrivial
}

func c12Show(b [][]int) string {
	var out []string
	for _, slots := range b {
		var s []string
		for _, a := range slots {
			s = append(s, c12Ages[a])
		}
		out = append(out, "["+strings.Join(s, ",")+"]")
	}
	return strings.Join(out, " ")
}

// c12Disabled: a period of zero never deletes anything; Start returns at once and Join returns.
func c12Disabled(c *fw.Ctx, backend string) {
	cas := c12Case{Backend: backend, Period: "0s", Sleep: "0s"}
	leaked := sys.InBubble(c.T, func() {
		sh := sys.NewStore(sys.StoreSpec{Backend: backend}, nil)
		defer sh.Close()
		id, _ := sh.Store.AddMessage(sys.Delivery("old", "f@x.test", nil, "ancient", "Subject: a\r\n\r\nancient\r\n", time.Now().Add(-100*365*24*time.Hour)))
		for _, p := range []time.Duration{0, -time.Hour} {
			rs := storage.NewRetentionScanner(config.Storage{RetentionPeriod: p, RetentionSleep: 0}, sh.Store)
			done := make(chan struct{})
			go func() { rs.Start(context.Background()); rs.Join(); close(done) }()
			sys.BubbleWait()
			select {
			case <-done:
			default:
				c.Violate(backend+"|disabled-scanner-does-not-return", fmt.Sprintf("with retention period %v Start/Join do not return", p), cas)
			}
		}
		if m, err := sh.Store.GetMessage("old", id); err != nil || m == nil {
			c.Violate(backend+"|disabled-scanner-deleted", "a retention period of zero deleted a message", cas)
		}
	})
	if leaked != "" {
		c.Violate(backend+"|disabled-scanner-blocked", "with retention disabled a goroutine stays blocked: "+leaked, cas)
	}
}

func c12Run(c *fw.Ctx) {
	n := 0
	var slots3, slots2 [][]int
	for a := 0; a < 5; a++ {
		for b := 0; b < 5; b++ {
			slots2 = append(slots2, []int{a, b})
			for d := 0; d < 5; d++ {
				slots3 = append(slots3, []int{a, b, d})
			}
		}
	}
	second := fw.Pick(c, slots2, slots3)
	for _, be := range []string{"mem", "file"} {
		if c.Shard == 0 {
			if c.Begin(func() any { return c12Case{Backend: be, Period: "0s"} }) {
				c12Disabled(c, be)
			}
		}
		for _, period := range []string{"1h", "24h"} {
			for _, sleep := range []string{"0s", "50ms"} {
				for _, b1 := range slots3 {
					for _, b2 := range second {
						n++
						if !c.Mine(n) {
							continue
						}
						if c.Expired() {
							return
						}
						for _, restart := range []bool{false, true} {
							if restart && (be != "file" || period != "1h" || sleep != "0s") {
								continue // the restart variant: file store, one period, no sleep
							}
							cas := c12Case{Backend: be, Period: period, Sleep: sleep, Boxes: [][]int{b1, b2}, Restart: restart}
							if c.Thorough() && n%7 == 0 {
								cas.Boxes = append(cas.Boxes, []int{1, 3})
							}
							if !c.Begin(func() any { return cas }) {
								continue
							}
							var nt bool
							c.Guard(be, cas, func() { nt = c12Exec(c, cas) })
							if nt {
								c.Nontrivial(1)
								if c.WantSample() {
									c.Sample(map[string]any{"case": cas, "ages": c12Show(cas.Boxes)})
								}
							}
						}
					}
				}
			}
		}
	}
}

func c12Replay(c *fw.Ctx, raw json.RawMessage) {
	var cas c12Case
	if err := json.Unmarshal(raw, &cas); err != nil {
		c.T.Fatalf("VERIF-INFRA bad case: %v", err)
	}
	if cas.Period == "0s" {
		c12Disabled(c, cas.Backend)
		return
	}
	c.Guard(cas.Backend, cas, func() { c12Exec(c, cas) })
}

func init() {
	fw.Register(&fw.Body{ID: "C12", Part: "seq", Run: c12Run, ReplayCase: c12Replay})
}
