//go:build go1.25

package checks

import (
	"encoding/base64"
	"encoding/json"
	"fmt"
	"slices"
	"strings"
	"time"

	"verif/fw"
	"verif/model"
	"verif/sys"
)

// C03 — SMTP transactions are well-sequenced, isolated from each other and atomic.

var c03Sigma = [][]string{
	{"HELO x"},
	{"EHLO x"},
	{"helo x"},
	{"EHLO"},
	{"MAIL FROM:<a@x.test>"},
	{"mail from:<b@x.test> SIZE=10"},
	{"MAIL FROM:<>"},
	{"MAIL bad"},
	{"RCPT TO:<r1@x.test>"},
	{"rcpt to:<r2@x.test>"},
	{"RCPT TO:<r1@rej.test>"},
	{"RCPT TO:<bad"},
	{"DATA"},
	{"DATA x"},
	{"Subject: s", "", "body", "."},
	{"RSET"},
	{"NOOP"},
	{"VRFY u"},
	{"QUIT"},
	{"AUTH PLAIN x"},
	{"AUTH LOGIN"},
	{"STARTTLS"},
	{""},
	{" "},
	// one write carrying a complete command line and the beginning of the next ("NOOP⏎NO"), the
	// client waiting for the first reply before it sends the rest ("OP⏎")
	{"!split NOOP"},
	{"XY"},
	{strings.Repeat("A", 10000)},
	{"\x00\xff\x80"},
	// MAIL commands the server refuses for policy reasons (the sender's domain is on the
	// reject-origin list; the declared size is above the limit): no transaction is open afterwards
	{"MAIL FROM:<a@badorigin.test>"},
	{"MAIL FROM:<c@x.test> SIZE=99999999"},
	// one command line longer than a reader buffer whose bytes from the 4096th on read "QUIT": it
	// is one line and gets one reply
	{"NOOP" + strings.Repeat(" ", 4096-4) + "QUIT"},
	// a recipient that is accepted but not stored (discard domain): the other recipients of the
	// transaction receive the message all the same
	{"RCPT TO:<r3@drop.test>"},
	// the client falls silent for longer than the idle timeout (300 s of the bubble's clock), at a
	// command boundary and in the middle of the message text: the server ends the session, what
	// the client sends afterwards is not executed, and no partial message is stored
	{"!idle"},
	{"Subject: s", "", "bo", "!idle", "dy", "."},
	// a source route without the mailbox it should lead to
	{"RCPT TO:<@relay.example>"},
}

type c03Case struct {
	Seq   []int    `json:"seq"`
	Lines []string `json:"lines,omitempty"`
}

func c03Desc(seq []int) c03Case {
	cas := c03Case{Seq: append([]int{}, seq...)}
	for _, i := range seq {
		l := strings.Join(c03Sigma[i], "⏎")
		if len(l) > 40 {
			l = l[:20] + fmt.Sprintf("…(%d bytes)", len(l))
		}
		cas.Lines = append(cas.Lines, l)
	}
	return cas
}

// c03Session is the model-side view of one session.
type c03Session struct {
	d        *sys.SMTPDriver
	dataMode bool
	data     []string
	cred     bool // the next line is a credential of an AUTH sub-dialogue, not a command
	expect   []sys.Expect
	ended    bool
	// recipients the server refused inside the open transaction.  The model forgets them (they are
	// no recipients), but they are part of the search state: an implementation that remembers one
	// shows only when the transaction is completed afterwards.
	refused []string
}

// c03Exec runs one sequence in a bubble.  It returns the model-state key.
func c03Exec(c *fw.Ctx, backend string, seq []int, checkFrom int) (key string, extend, nontrivial bool) {
	units := make([][]string, len(seq))
	for i, oi := range seq {
		units[i] = c03Sigma[oi]
	}
	return c03ExecUnits(c, backend, c03Desc(seq), units, checkFrom)
}

// c03ExecUnits runs a dialogue given as units of lines (cas is what a violation records).
func c03ExecUnits(c *fw.Ctx, backend string, cas any, seq [][]string, checkFrom int) (key string, extend, nontrivial bool) {
	extend = true
	leaked := sys.InBubble(c.T, func() {
		smtp := sys.DefaultSMTP()
		smtp.RejectDomains = []string{"rej.test"}
		smtp.RejectOriginDomains = []string{"badorigin.test"}
		smtp.DiscardDomains = []string{"drop.test"}
		smtp.MaxMessageBytes = 5000000
		smtp.MaxRecipients = 2 // a third RCPT is refused (552) and is no recipient of the transaction
		s := sys.New(sys.Spec{Store: sys.StoreSpec{Backend: backend}, SMTP: smtp, NoHub: true})
		defer s.Close()
		k := s.DialSMTP()
		k.Bubble = true
		ss := &c03Session{d: &sys.SMTPDriver{K: k}}
		d := ss.d
		fail := func(key, detail string) {
			c.Violate(key, detail+"\ndialogue:\n  "+strings.Join(d.Log, "\n  "), cas)
			extend = false
		}
		mo := model.NewStore(0, 0)
		g := d.Greeting()
		if !g.OK || g.Code != 220 {
			fail("greeting", "no well-formed 220 greeting: "+g.Why)
		}
		if p := k.Pending(); p != "" {
			fail("unsolicited", fmt.Sprintf("bytes after the greeting without a command: %q", p))
		}
	outer:
		for si, unit := range seq {
			last := si == len(seq)-1
			for _, line := range unit {
				if ss.ended {
					break outer
				}
				if line == "!idle" {
					d.Log = append(d.Log, "C: (silent for 301 s)")
					time.Sleep(301 * time.Second)
					if p := k.Pending(); p != "" {
						d.Log = append(d.Log, "S: "+strings.TrimSpace(p))
					}
					if !k.Ended() {
						fail("idle|session-survives-timeout", "after 301 s of silence (idle timeout 300 s) the session is still open")
						break outer
					}
					ss.ended = true
					ss.data, ss.dataMode = nil, false
					break outer
				}
				if ss.dataMode {
					d.Log = append(d.Log, "C(data): "+clipLine(line))
					if err := k.Send(line); err != nil {
						if k.Ended() {
							ss.ended = true
							d.Log = append(d.Log, "   (connection closed by server)")
							break outer
						}
						fail("wedge|data-not-read", "server stopped reading during DATA without closing: "+err.Error())
						break outer
					}
					if line != "." {
						ss.data = append(ss.data, line)
						if p := k.Pending(); p != "" {
							fail("reply|inside-data", fmt.Sprintf("server replied %q to a data line", p))
							break outer
						}
						continue
					}
					ss.dataMode = false
					r := k.ReadSMTPReply()
					d.Log = append(d.Log, "S: "+r.String())
					if !r.OK {
						fail("reply|after-data", "no well-formed reply after the terminating dot: "+r.Why)
						break outer
					}
					if p := k.Pending(); p != "" {
						fail("reply|extra", fmt.Sprintf("more than one reply after the terminating dot: %q", p))
						break outer
					}
					if r.Class() == 2 {
						from, rcpts := d.Delivered()
						body := strings.Join(ss.data, "\r\n")
						if len(ss.data) > 0 {
							body += "\r\n"
						}
						// the subject is pinned only when the payload is exactly the harness's message unit
						subj, anySubj := "", true
						if len(ss.data) == 3 && ss.data[0] == "Subject: s" {
							subj, anySubj = "s", false
						} else if len(ss.data) == 0 {
							anySubj = false
						}
						for _, a := range rcpts {
							if strings.EqualFold(model.DomainOf(a), "drop.test") {
								continue // accepted, not stored
							}
							ss.expect = append(ss.expect, sys.Expect{Mailbox: model.SimpleMailbox("local", a), From: from, To: rcpts, Subject: subj, AnySubject: anySubj, Data: body})
						}
						nontrivial = nontrivial || last
					}
					ss.data = nil
					if r.Class() == 2 {
						ss.refused = nil
					}
					continue
				}
				// command mode
				if line == "!split NOOP" {
					d.Log = append(d.Log, `C: "NOOP\r\nNO" (one write; the rest follows after the reply)`)
					if err := k.Write([]byte("NOOP\r\nNO")); err != nil {
						if k.Ended() {
							ss.ended = true
							break outer
						}
						fail("wedge|not-reading", "server is neither reading nor finished: "+err.Error())
						break outer
					}
					r1 := k.ReadSMTPReply()
					d.Log = append(d.Log, "S: "+r1.String())
					if !r1.OK {
						fail("reply|missing|split", "a complete command line that arrived together with the first bytes of the next one did not receive its reply while the client waited: "+r1.Why)
						break outer
					}
					if p := k.Pending(); p != "" {
						fail("reply|extra|split", fmt.Sprintf("more than one reply to one complete line; extra: %q", p))
						break outer
					}
					line = "OP" // the rest of the second NOOP goes the ordinary way (and gets the ordinary checks)
					if ss.cred {
						// the first line was a credential; the second is whatever the server now expects
						ss.cred = r1.Code == 334
					} else {
						d.Fold("NOOP", r1)
						if r1.Code == 334 {
							ss.cred = true
						}
					}
				}
				d.Log = append(d.Log, "C: "+clipLine(line))
				if err := k.Send(line); err != nil {
					if k.Ended() {
						ss.ended = true
						d.Log = append(d.Log, "   (connection closed by server)")
						break outer
					}
					fail("wedge|not-reading", "server is neither reading nor finished: "+err.Error())
					break outer
				}
				r := k.ReadSMTPReply()
				d.Log = append(d.Log, "S: "+r.String())
				if !r.OK {
					fail("reply|missing|"+c03Verb(line), fmt.Sprintf("command line %q did not receive one well-formed reply: %s", clipLine(line), r.Why))
					break outer
				}
				if p := k.Pending(); p != "" {
					fail("reply|extra|"+c03Verb(line), fmt.Sprintf("command line %q received more than one reply; extra: %q", clipLine(line), p))
					break outer
				}
				if ss.cred {
					// credential line of an AUTH sub-dialogue: not a command
					ss.cred = r.Code == 334
					continue
				}
				verb := c03Verb(line)
				if last || si >= checkFrom {
					switch {
					case verb == "MAIL" && r.Class() == 2 && !d.Greeted:
						fail("sequence|mail-before-greeting", "MAIL was accepted before any HELO/EHLO was accepted")
					case verb == "RCPT" && r.Class() == 2 && !d.Open:
						fail("sequence|rcpt-outside-transaction", "RCPT was accepted although no transaction is open (no accepted MAIL since the last reset/delivery)")
					case verb == "DATA" && (r.Class() == 2 || r.Class() == 3) && len(d.Rcpts) == 0:
						fail("sequence|data-without-recipient", "DATA was accepted although no recipient has been accepted in this transaction")
					}
				}
				d.Fold(line, r)
				switch {
				case verb == "RCPT" && r.Class() != 2 && d.Open:
					if a := c03Angle(line); !slices.Contains(ss.refused, a) {
						ss.refused = append(ss.refused, a)
						slices.Sort(ss.refused)
					}
				case r.Class() == 2 && (verb == "MAIL" || verb == "RSET" || verb == "HELO" || verb == "EHLO"):
					ss.refused = nil
				}
				switch {
				case r.Code == 354:
					ss.dataMode = true
				case r.Code == 334:
					ss.cred = true
				}
				if r.Class() == 2 && last && (verb == "MAIL" || verb == "RCPT" || verb == "HELO" || verb == "EHLO") {
					nontrivial = true
				}
				if k.Ended() {
					ss.ended = true
				}
			}
		}
		// end of input: client closes; the session must finish, and the store must hold exactly
		// the acknowledged messages.
		k.Close()
		if !k.Ended() {
			fail("wedge|session-does-not-end", "the client closed the connection but the session goroutine never returned")
		}
		if p := k.Pending(); p != "" && !strings.HasPrefix(p, "221") && !strings.HasPrefix(p, "421") {
			// bytes that arrived after the last consumed reply (only a closing notice is tolerated)
			fail("unsolicited|at-close", fmt.Sprintf("unsolicited bytes at connection end: %q", p))
		}
		for _, p := range s.CheckDelivery(mo, ss.expect, "r1", "r2", "r3") {
			fail(p[0], p[1])
		}
		key = fmt.Sprintf("g%v o%v f%s r%v x%v dm%v data%d cred%v ended%v store%s", d.Greeted, d.Open, d.From, d.Rcpts, ss.refused, ss.dataMode, len(ss.data), ss.cred, ss.ended, mo.Key())
		if ss.ended {
			extend = false
		}
	})
	if leaked != "" {
		c.Violate("wedge|goroutine-left-blocked", "after the client closed the connection a goroutine of the session is still blocked: "+leaked, cas)
		return "", false, false
	}
	return key, extend, nontrivial
}

func clipLine(l string) string {
	if len(l) > 60 {
		return fmt.Sprintf("%q…(%d bytes)", l[:20], len(l))
	}
	return fmt.Sprintf("%q", l)
}

// c03Angle is the address between the angle brackets of a RCPT line ("" when there is none).
func c03Angle(line string) string {
	i, j := strings.IndexByte(line, '<'), strings.LastIndexByte(line, '>')
	if i < 0 || j < i {
		return ""
	}
	return line[i+1 : j]
}

func c03Verb(line string) string {
	v := line
	if i := strings.IndexByte(v, ' '); i >= 0 {
		v = v[:i]
	}
	v = strings.ToUpper(v)
	switch v {
	case "HELO", "EHLO", "MAIL", "RCPT", "DATA", "RSET", "NOOP", "VRFY", "QUIT", "AUTH", "STARTTLS":
		return v
	}
	return "other"
}

func c03Run(c *fw.Ctx) {
	e := &fw.SeqExplorer{
		C: c, NOps: len(c03Sigma),
		FullDepth: fw.Pick(c, 3, 4),
		MaxDepth:  fw.Pick(c, 7, 10),
		Run: func(seq []int) (string, bool, bool) {
			var key string
			var ext, nt bool
			cas := c03Desc(seq)
			if c.Guard("smtp", cas, func() { key, ext, nt = c03Exec(c, "mem", seq, len(seq)-1) }) {
				return "", false, false
			}
			if key != "" && len(seq) > 0 {
				// expand every (model state, last command) pair separately so that every
				// (state, command, next command) triple is exercised
				key += fmt.Sprintf("|last%d", seq[len(seq)-1])
			}
			return key, ext, nt
		},
		Desc: func(seq []int) any { return c03Desc(seq) },
	}
	e.Explore()
}

func c03Replay(c *fw.Ctx, raw json.RawMessage) {
	var cas c03Case
	if err := json.Unmarshal(raw, &cas); err != nil {
		c.T.Fatalf("VERIF-INFRA bad case: %v", err)
	}
	c.Guard("smtp", cas, func() { c03Exec(c, "mem", cas.Seq, 0) })
}

func init() {
	fw.Register(&fw.Body{ID: "C03", Part: "seq", Run: c03Run, ReplayCase: c03Replay})
	fw.Register(&fw.Body{ID: "C03", Part: "auth", Run: c03AuthRun, ReplayCase: c03AuthReplay})
}

// ---------------------------------------------------------------------------------------------
// auth clause: the AUTH sub-dialogues with every small credential payload.  Inbucket accepts any
// credentials; what must hold is "one well-formed reply per line, no input crashes the server".

type c03AuthCase struct {
	Form    string   `json:"form"`
	Payload string   `json:"payload"` // decoded credential bytes (quoted)
	Lines   []string `json:"lines"`
}

func c03AuthCases() []c03AuthCase {
	var payloads []string
	var gen func(cur string)
	gen = func(cur string) {
		payloads = append(payloads, cur)
		if len(cur) == 4 {
			return
		}
		for _, a := range []string{"u", "\x00", "p"} {
			gen(cur + a)
		}
	}
	gen("")
	var out []c03AuthCase
	add := func(form, payload string, lines ...string) {
		l := append([]string{"EHLO x"}, lines...)
		l = append(l, "NOOP", "NOOP")
		out = append(out, c03AuthCase{Form: form, Payload: fmt.Sprintf("%q", payload), Lines: l})
	}
	for _, p := range payloads {
		b := base64.StdEncoding.EncodeToString([]byte(p))
		add("plain-inline", p, "AUTH PLAIN "+b)
		add("plain-two-step", p, "AUTH PLAIN", b)
		add("login", p, "AUTH LOGIN", b, b)
	}
	for _, raw := range []string{"!!!", "=", "dXNlcg", "*", "dXNlcgBzZWNyZXQ= x", strings.Repeat("QUJD", 300)} {
		add("plain-inline-raw", raw, "AUTH PLAIN "+raw)
		add("plain-two-step-raw", raw, "AUTH PLAIN", raw)
		add("login-raw", raw, "AUTH LOGIN", raw, raw)
		add("login-inline-raw", raw, "AUTH LOGIN "+raw, raw)
	}
	add("unknown-mechanism", "", "AUTH CRAM-MD5")
	add("bare", "", "AUTH")
	return out
}

func c03AuthRun(c *fw.Ctx) {
	for i, cas := range c03AuthCases() {
		if !c.Mine(i + 1) {
			continue
		}
		if c.Expired() {
			return
		}
		cas := cas
		if !c.Begin(func() any { return cas }) {
			continue
		}
		c.Guard("smtp", cas, func() { c03AuthExec(c, cas) })
		c.Nontrivial(1)
	}
}

func c03AuthExec(c *fw.Ctx, cas c03AuthCase) {
	units := make([][]string, len(cas.Lines))
	for i, l := range cas.Lines {
		units[i] = []string{l}
	}
	c03ExecUnits(c, "mem", cas, units, 0)
}

func c03AuthReplay(c *fw.Ctx, raw json.RawMessage) {
	var cas c03AuthCase
	if err := json.Unmarshal(raw, &cas); err != nil {
		c.T.Fatalf("VERIF-INFRA bad case: %v", err)
	}
	c.Guard("smtp", cas, func() { c03AuthExec(c, cas) })
}

// ---------------------------------------------------------------------------------------------
// cut clause: a valid dialogue cut after every byte offset.

type c03Dialogue struct {
	Name  string
	Lines []string // command lines and data lines, in order
}

var c03Dialogues = []c03Dialogue{
	{"one-txn", []string{"HELO x", "MAIL FROM:<a@x.test>", "RCPT TO:<r1@x.test>", "DATA", "Subject: one", "", "body one", ".", "QUIT"}},
	{"two-txn", []string{"EHLO x", "MAIL FROM:<a@x.test>", "RCPT TO:<r1@x.test>", "RCPT TO:<r2@x.test>", "DATA", "Subject: first", "", "..stuffed", "first body", ".",
		"MAIL FROM:<b@x.test>", "RCPT TO:<r2@x.test>", "DATA", "Subject: second", "", "second body", ".", "QUIT"}},
	{"ehlo-mid-transaction", []string{"EHLO x", "MAIL FROM:<a@x.test>", "RCPT TO:<r1@x.test>", "EHLO again", "MAIL FROM:<b@x.test>", "RCPT TO:<r2@x.test>", "DATA", "Subject: e", "", "after ehlo", ".", "QUIT"}},
	{"three-txn-rset", []string{"HELO x", "MAIL FROM:<a@x.test>", "RCPT TO:<r1@x.test>", "DATA", "Subject: t1", "", "b1", ".",
		"MAIL FROM:<a@x.test>", "RCPT TO:<r1@x.test>", "RSET",
		"MAIL FROM:<c@x.test>", "RCPT TO:<r1@x.test>", "RCPT TO:<r1@x.test>", "DATA", "Subject: t3", "", "b3", ".", "QUIT"}},
}

type c03CutCase struct {
	Backend  string `json:"backend"`
	Dialogue int    `json:"dialogue"`
	Cut      int    `json:"cut"`
	Mode     string `json:"mode"` // lockstep | pipelined
}

// c03CutExec sends the first Cut bytes of the dialogue and closes.
func c03CutExec(c *fw.Ctx, cas c03CutCase) (nontrivial bool) {
	dlg := c03Dialogues[cas.Dialogue]
	leaked := sys.InBubble(c.T, func() {
		smtp := sys.DefaultSMTP()
		s := sys.New(sys.Spec{Store: sys.StoreSpec{Backend: cas.Backend}, SMTP: smtp, NoHub: true})
		defer s.Close()
		k := s.DialSMTP()
		k.Bubble = true
		d := &sys.SMTPDriver{K: k}
		fail := func(key, detail string) {
			c.Violate(cas.Backend+"|"+cas.Mode+"|"+key, fmt.Sprintf("%s\ndialogue %q cut after byte %d (%s)\n  %s", detail, dlg.Name, cas.Cut, cas.Mode, strings.Join(d.Log, "\n  ")), cas)
		}
		// Pre-compute, by replaying the protocol rules on the client side, which messages are
		// complete within the first Cut bytes and which were acknowledged.
		type msg struct {
			exp   []sys.Expect
			acked bool
		}
		var complete []*msg // messages whose terminating ".\r\n" lies within the cut, in order
		d.Greeting()
		sent := 0
		inData := false
		var data []string
		var from string
		var rcpts []string
		for _, line := range dlg.Lines {
			wire := line + "\r\n"
			if sent+len(wire) > cas.Cut {
				part := wire[:cas.Cut-sent]
				if part != "" {
					_ = k.Write([]byte(part))
				}
				sent = cas.Cut
				break
			}
			if err := k.Write([]byte(wire)); err != nil {
				fail("wedge|not-reading", "server stopped reading a valid dialogue: "+err.Error())
				break
			}
			sent += len(wire)
			d.Log = append(d.Log, "C: "+clipLine(line))
			if inData {
				if line != "." {
					if strings.HasPrefix(line, "..") {
						line = line[1:]
					}
					data = append(data, line)
					continue
				}
				inData = false
				m := &msg{}
				body := strings.Join(data, "\r\n") + "\r\n"
				for _, a := range rcpts {
					m.exp = append(m.exp, sys.Expect{Mailbox: model.SimpleMailbox("local", a), From: from, To: rcpts, Subject: strings.TrimPrefix(data[0], "Subject: "), Data: body})
				}
				complete = append(complete, m)
				if cas.Mode == "lockstep" && sent < cas.Cut {
					r := k.ReadSMTPReply()
					d.Log = append(d.Log, "S: "+r.String())
					if r.Class() != 2 {
						fail("valid-dialogue-refused", "a valid message was not acknowledged: "+r.String())
					}
					m.acked = true
				}
				data, rcpts = nil, nil
				continue
			}
			verb := c03Verb(line)
			switch verb {
			case "MAIL":
				from, rcpts = strings.TrimSuffix(strings.TrimPrefix(line, "MAIL FROM:<"), ">"), nil
			case "RCPT":
				rcpts = append(rcpts, strings.TrimSuffix(strings.TrimPrefix(line, "RCPT TO:<"), ">"))
			case "RSET", "EHLO", "HELO":
				rcpts = nil
			case "DATA":
				inData = true
			}
			if cas.Mode == "lockstep" && sent < cas.Cut {
				r := k.ReadSMTPReply()
				d.Log = append(d.Log, "S: "+r.String())
				if !r.OK || (r.Class() != 2 && r.Class() != 3) {
					fail("valid-dialogue-refused", fmt.Sprintf("a valid command %q was refused: %s", line, r.String()))
				}
			}
		}
		k.Close()
		if !k.Ended() {
			fail("wedge|session-does-not-end", "the client closed the connection but the session goroutine never returned")
		}
		if cas.Mode == "pipelined" {
			// acknowledgements that arrived before the close count as seen
			acks := 0
			for {
				l, ok := k.ReadLine()
				if !ok {
					break
				}
				if strings.HasPrefix(l, "250 Mail accepted") {
					acks++
				}
			}
			for i := 0; i < acks && i < len(complete); i++ {
				complete[i].acked = true
			}
		}
		// Oracle: every acked message is stored; of the unacked complete ones only the last one
		// transmitted may be stored, wholly or not at all; nothing else; all content complete.
		mo := model.NewStore(0, 0)
		var must []sys.Expect
		var maybe *msg
		for i, m := range complete {
			if m.acked {
				must = append(must, m.exp...)
			} else if i == len(complete)-1 {
				maybe = m
			} else {
				// an earlier complete message without ack can only happen in pipelined mode; the
				// server processes in order, so by the time a later one is stored this one is too.
				// Treat as "must" only if a later one was acked.
				later := false
				for _, n := range complete[i+1:] {
					later = later || n.acked
				}
				if later {
					must = append(must, m.exp...)
				} else {
					maybe = m
					break
				}
			}
		}
		probsA := s.CheckDelivery(model.NewStore(0, 0), must, "r1", "r2")
		ok := len(probsA) == 0
		var probsB [][2]string
		if !ok && maybe != nil {
			probsB = s.CheckDelivery(mo, append(append([]sys.Expect{}, must...), maybe.exp...), "r1", "r2")
			ok = len(probsB) == 0
		}
		if !ok {
			for _, p := range probsA {
				fail(p[0], "store after the cut is neither 'acknowledged messages' nor 'acknowledged + the completely transmitted one': "+p[1])
			}
		}
		nontrivial = len(complete) > 0
		// the next client of the same server is not affected by how the previous one left
		k2 := s.DialSMTP()
		k2.Bubble = true
		d2 := &sys.SMTPDriver{K: k2}
		g2 := d2.Greeting()
		r1 := d2.Cmd("HELO next.test")
		r2 := d2.Cmd("NOOP")
		r3 := d2.Cmd("QUIT")
		k2.Close()
		if !g2.OK || g2.Code != 220 || r1.Class() != 2 || r2.Class() != 2 || r3.Code != 221 {
			fail("next-connection-affected", fmt.Sprintf("the connection opened after the cut one did not get a normal dialogue: greeting %s, HELO %s, NOOP %s, QUIT %s", g2.String(), r1.String(), r2.String(), r3.String()))
		}
		if !k2.Ended() {
			fail("wedge|session-does-not-end", "the session of the connection opened after the cut one never returned")
		}
	})
	if leaked != "" {
		c.Violate("wedge|goroutine-left-blocked", "after the cut a goroutine of the session is still blocked: "+leaked, cas)
	}
	return nontrivial
}

func c03CutRun(c *fw.Ctx) {
	n := 0
	for _, be := range []string{"mem", "file"} {
		for di, dlg := range c03Dialogues {
			total := 0
			for _, l := range dlg.Lines {
				total += len(l) + 2
			}
			for _, mode := range []string{"lockstep", "pipelined"} {
				for cut := 0; cut <= total; cut++ {
					n++
					if !c.Mine(n) {
						continue
					}
					cas := c03CutCase{Backend: be, Dialogue: di, Cut: cut, Mode: mode}
					if !c.Begin(func() any { return cas }) {
						continue
					}
					var nt bool
					c.Guard("cut", cas, func() { nt = c03CutExec(c, cas) })
					if nt {
						c.Nontrivial(1)
					}
					if cut == total/2 && c.WantSample() {
						c.Sample(cas)
					}
				}
			}
		}
	}
}

func c03CutReplay(c *fw.Ctx, raw json.RawMessage) {
	var cas c03CutCase
	if err := json.Unmarshal(raw, &cas); err != nil {
		c.T.Fatalf("VERIF-INFRA bad case: %v", err)
	}
	c.Guard("cut", cas, func() { c03CutExec(c, cas) })
}

func init() {
	fw.Register(&fw.Body{ID: "C03", Part: "cut", Run: c03CutRun, ReplayCase: c03CutReplay})
}
