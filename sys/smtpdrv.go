package sys

import (
	"fmt"
	"strings"

	"github.com/inbucket/inbucket/v3/pkg/storage"

	"verif/model"
)

// SMTPDriver drives one SMTP session and folds the observed replies through the envelope rules
// of the property statements: a 2xx to MAIL opens a fresh envelope; a 2xx to RCPT adds the
// recipient; a 2xx to HELO/EHLO/RSET discards the envelope; the final 250 after DATA delivers to
// the envelope and discards it; any non-2xx reply leaves it unchanged.
type SMTPDriver struct {
	K       *Conn
	Open    bool     // a MAIL was accepted and not yet discarded
	From    string   // envelope sender
	Rcpts   []string // recipients accepted since the most recent accepted MAIL
	Greeted bool     // a 2xx to HELO/EHLO was seen
	Log     []string
}

// Greeting reads the 220 banner.
func (d *SMTPDriver) Greeting() Reply {
	r := d.K.ReadSMTPReply()
	d.Log = append(d.Log, "S: "+r.String())
	return r
}

func verbOf(line string) string {
	v := line
	if i := strings.IndexByte(v, ' '); i >= 0 {
		v = v[:i]
	}
	return strings.ToUpper(v)
}

// Cmd sends one command line, reads its single reply and updates the envelope.
func (d *SMTPDriver) Cmd(line string) Reply {
	d.Log = append(d.Log, "C: "+clip(line))
	if err := d.K.Send(line); err != nil {
		d.Log = append(d.Log, "   (write failed: "+err.Error()+")")
		return Reply{Why: "write failed: " + err.Error()}
	}
	r := d.K.ReadSMTPReply()
	d.Log = append(d.Log, "S: "+r.String())
	d.Fold(line, r)
	return r
}

// Fold applies the envelope rules for (command line, reply).
func (d *SMTPDriver) Fold(line string, r Reply) {
	if r.Class() != 2 {
		return
	}
	switch verbOf(line) {
	case "HELO", "EHLO":
		d.Greeted = true
		d.Open, d.From, d.Rcpts = false, "", nil
	case "RSET":
		d.Open, d.From, d.Rcpts = false, "", nil
	case "MAIL":
		d.Open, d.Rcpts = true, nil
		d.From = angle(line)
	case "RCPT":
		d.Rcpts = append(d.Rcpts, angle(line))
	}
}

// angle extracts the address of "MAIL FROM:<a>" / "RCPT TO:<a>" the way RFC 5321 delimits it.
func angle(line string) string {
	i := strings.IndexByte(line, ':')
	if i < 0 {
		return ""
	}
	a := strings.TrimSpace(line[i+1:])
	if strings.HasPrefix(a, "<") {
		if j := strings.LastIndexByte(a, '>'); j > 0 {
			return a[1:j]
		}
	}
	if j := strings.IndexByte(a, ' '); j >= 0 {
		a = a[:j]
	}
	return strings.Trim(a, "<>")
}

// DotStuff encodes body for DATA: lines starting with '.' (after CRLF or bare LF) get a second
// dot; the terminator CRLF.CRLF is appended (its leading CRLF is the body's own final CRLF when
// the body ends in one; RFC 5321 does not accept a bare LF there).
func DotStuff(body string) string {
	body = Transmitted(body)
	var b strings.Builder
	atLineStart := true
	for i := 0; i < len(body); i++ {
		c := body[i]
		if atLineStart && c == '.' {
			b.WriteByte('.')
		}
		b.WriteByte(c)
		atLineStart = c == '\n'
	}
	b.WriteString(".\r\n")
	return b.String()
}

// Data performs DATA + body + terminator.  It returns the intermediate (354) and final replies;
// final.Lines is empty when the server refused DATA.
func (d *SMTPDriver) Data(body string) (mid, final Reply) {
	mid = d.Cmd("DATA")
	if mid.Code != 354 {
		return mid, Reply{}
	}
	d.Log = append(d.Log, fmt.Sprintf("C: <%d bytes of data + terminator>", len(body)))
	if err := d.K.Write([]byte(DotStuff(body))); err != nil {
		return mid, Reply{Why: "write failed: " + err.Error()}
	}
	final = d.K.ReadSMTPReply()
	d.Log = append(d.Log, "S: "+final.String())
	return mid, final
}

// DataEager is Data by a client that does not wait for the 354: the DATA line, the message and the
// terminator leave in ONE write (a pipelining client, or one that writes its whole dialogue before
// it reads).  Both replies are then read.
func (d *SMTPDriver) DataEager(body string) (mid, final Reply) {
	d.Log = append(d.Log, fmt.Sprintf("C: DATA + <%d bytes of data + terminator> in one write", len(body)))
	if err := d.K.Write([]byte("DATA\r\n" + DotStuff(body))); err != nil {
		return Reply{Why: "write failed: " + err.Error()}, Reply{}
	}
	mid = d.K.ReadSMTPReply()
	d.Log = append(d.Log, "S: "+mid.String())
	if mid.Code != 354 {
		return mid, Reply{}
	}
	final = d.K.ReadSMTPReply()
	d.Log = append(d.Log, "S: "+final.String())
	return mid, final
}

// Delivered must be called when the final reply after data was 2xx: it returns the envelope that
// the message must have been delivered to and discards it.
func (d *SMTPDriver) Delivered() (from string, rcpts []string) {
	from, rcpts = d.From, d.Rcpts
	d.Open, d.From, d.Rcpts = false, "", nil
	return
}

// NormLE is the canonical form under "CRLF/LF line-ending normalisation": every run of CRs
// directly before an LF, and that LF, become one LF (so CRLF, LF and the ambiguous CR CRLF all
// read as one line ending); CRs elsewhere are kept; one final line terminator is ignored.
func NormLE(s string) string {
	var b strings.Builder
	b.Grow(len(s))
	for i := 0; i < len(s); i++ {
		if s[i] == '\r' {
			j := i
			for j < len(s) && s[j] == '\r' {
				j++
			}
			if j < len(s) && s[j] == '\n' {
				b.WriteByte('\n')
				i = j
				continue
			}
			b.WriteString(s[i:j])
			i = j - 1
			continue
		}
		b.WriteByte(s[i])
	}
	return strings.TrimSuffix(b.String(), "\n")
}

// Transmitted is the DATA payload as it goes on the wire before dot-stuffing: the body, plus a
// CRLF when the body does not end in CRLF (the terminator is <CRLF>.<CRLF>).
func Transmitted(body string) string {
	if body != "" && !strings.HasSuffix(body, "\r\n") {
		return body + "\r\n"
	}
	return body
}

// SplitTrace splits a stored source into the server's trace headers and the rest.
func SplitTrace(src string) (returnPath, received, rest string, ok bool) {
	i := strings.Index(src, "\n")
	if i < 0 || !strings.HasPrefix(src, "Return-Path: ") {
		return "", "", src, false
	}
	returnPath = src[:i+1]
	src = src[i+1:]
	if !strings.HasPrefix(src, "Received: ") {
		return returnPath, "", src, false
	}
	j := strings.Index(src, "\n")
	if j < 0 {
		return returnPath, "", src, false
	}
	received = src[:j+1]
	src = src[j+1:]
	for strings.HasPrefix(src, "  for <") {
		k := strings.Index(src, "\n")
		if k < 0 {
			break
		}
		received += src[:k+1]
		src = src[k+1:]
	}
	return returnPath, received, src, true
}

// Expect describes one message that a delivery must have added.
type Expect struct {
	Mailbox string
	From    string
	To      []string
	Subject string
	Data    string // the DATA payload as transmitted (before dot-stuffing)
	// AnySubject: the payload's header block is not one the harness generated, so the subject the
	// server extracts from it is not pinned.
	AnySubject bool
}

// CheckDelivery compares the whole store with the model extended by exp (in order) and, if it
// matches, records the new messages (with the ids the implementation chose) in the model.  names
// are additional mailbox names to look at.  Returned problems are (key, detail) pairs.
func (s *Sys) CheckDelivery(mo *model.Store, exp []Expect, names ...string) (probs [][2]string) {
	st := s.StoreH.Store
	want := map[string][]Expect{}
	look := map[string]bool{"": true, "zz-unknown": true}
	for _, e := range exp {
		want[e.Mailbox] = append(want[e.Mailbox], e)
		look[e.Mailbox] = true
	}
	for n := range mo.Boxes {
		look[n] = true
	}
	for _, n := range names {
		look[n] = true
	}
	bad := func(key, f string, a ...any) { probs = append(probs, [2]string{key, fmt.Sprintf(f, a...)}) }
	for mb := range look {
		ms, err := st.GetMessages(mb)
		if err != nil {
			if mb == "" || mb == "zz-unknown" {
				continue
			}
			bad("store|list-error", "GetMessages(%q): %v", mb, err)
			continue
		}
		old := mo.Boxes[mb]
		if len(ms) != len(old)+len(want[mb]) {
			var ids []string
			for _, m := range ms {
				ids = append(ids, m.ID()+":"+m.Subject())
			}
			key := "store|missing"
			if len(ms) > len(old)+len(want[mb]) {
				key = "store|extra"
			}
			bad(key, "mailbox %q holds %d messages %v; expected %d already there + %d new", mb, len(ms), ids, len(old), len(want[mb]))
			continue
		}
		for i, m := range ms {
			o := Observe(m)
			if i < len(old) {
				if d := DiffMsg(o, old[i], false); d != "" {
					bad("store|old-changed", "mailbox %q message %d changed: %s", mb, i, d)
				}
				continue
			}
			e := want[mb][i-len(old)]
			var d []string
			if o.Mailbox != mb {
				d = append(d, fmt.Sprintf("mailbox %q want %q", o.Mailbox, mb))
			}
			if o.From != e.From {
				d = append(d, fmt.Sprintf("from %q want %q", o.From, e.From))
			}
			if strings.Join(o.To, ",") != strings.Join(e.To, ",") {
				d = append(d, fmt.Sprintf("to %v want %v", o.To, e.To))
			}
			if o.Subject != e.Subject && !e.AnySubject {
				d = append(d, fmt.Sprintf("subject %q want %q", o.Subject, e.Subject))
			}
			if o.BodyErr != "" {
				d = append(d, "source unreadable: "+o.BodyErr)
			} else {
				if o.Size != int64(len(o.Body)) {
					d = append(d, fmt.Sprintf("size %d but source has %d bytes", o.Size, len(o.Body)))
				}
				_, _, rest, ok := SplitTrace(o.Body)
				if !ok {
					d = append(d, fmt.Sprintf("source does not start with Return-Path and Received: %q", clip(o.Body)))
				} else if NormLE(rest) != NormLE(Transmitted(e.Data)) {
					d = append(d, fmt.Sprintf("content %q want %q", clip(rest), clip(e.Data)))
				}
			}
			if len(d) > 0 {
				bad("store|new-differs", "new message %d in %q: %s", i, mb, strings.Join(d, "; "))
				continue
			}
			mm := &model.Msg{ID: o.ID, Mailbox: mb, From: o.From, To: o.To, Subject: o.Subject, Body: o.Body, Size: o.Size, Seen: o.Seen, DateNS: o.DateNS}
			mo.Add(mm)
		}
	}
	if len(probs) > 0 {
		return probs
	}
	// nothing outside the mailboxes we looked at
	err := st.VisitMailboxes(func(ms []storage.Message) bool {
		if len(ms) > 0 && !look[ms[0].Mailbox()] {
			bad("store|stray-mailbox", "mailbox %q holds %d messages but nothing was delivered there", ms[0].Mailbox(), len(ms))
		}
		return true
	})
	if err != nil {
		bad("store|visit-error", "VisitMailboxes: %v", err)
	}
	return probs
}
