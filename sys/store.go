// Package sys assembles the real inbucket components in-process for the checks and provides
// the observation helpers (what the implementation shows) that are compared with the models.
package sys

import (
	"fmt"
	"io"
	"net/mail"
	"os"
	"path/filepath"
	"sort"
	"strconv"
	"strings"
	"sync"
	"sync/atomic"
	"time"

	"github.com/inbucket/inbucket/v3/pkg/config"
	"github.com/inbucket/inbucket/v3/pkg/extension"
	"github.com/inbucket/inbucket/v3/pkg/extension/event"
	"github.com/inbucket/inbucket/v3/pkg/message"
	"github.com/inbucket/inbucket/v3/pkg/storage"
	"github.com/inbucket/inbucket/v3/pkg/storage/file"
	"github.com/inbucket/inbucket/v3/pkg/storage/mem"
	"github.com/rs/zerolog"

	"verif/model"
)

func init() {
	zerolog.SetGlobalLevel(zerolog.Disabled)
}

var scratchOnce sync.Once
var scratchDir string
var scratchN atomic.Int64

// Scratch returns this process's scratch directory (tmpfs when available).
func Scratch() string {
	scratchOnce.Do(func() {
		base := os.Getenv("VERIF_SCRATCH")
		if base == "" {
			if st, err := os.Stat("/dev/shm"); err == nil && st.IsDir() {
				base = "/dev/shm"
			} else {
				base = os.TempDir()
			}
		}
		scratchDir = filepath.Join(base, "verif-"+strconv.Itoa(os.Getpid()))
		_ = os.RemoveAll(scratchDir)
		_ = os.MkdirAll(scratchDir, 0o755)
	})
	return scratchDir
}

// CleanScratch removes the scratch directory.
func CleanScratch() {
	if scratchDir != "" {
		_ = os.RemoveAll(scratchDir)
	}
}

// FreshDir returns a new empty directory under Scratch.
func FreshDir() string {
	d := filepath.Join(Scratch(), "d"+strconv.FormatInt(scratchN.Add(1), 10))
	_ = os.MkdirAll(d, 0o755)
	return d
}

// StoreSpec selects a backend and its limits.
type StoreSpec struct {
	Backend string // "mem" | "file"
	Cap     int
	MaxKB   int    // mem only
	Dir     string // file only; "" = fresh
}

func (s StoreSpec) String() string {
	return fmt.Sprintf("%s/cap=%d/maxkb=%d", s.Backend, s.Cap, s.MaxKB)
}

// StoreH is a live store with what is needed to stop and clean it.
type StoreH struct {
	Store storage.Store
	Spec  StoreSpec
	Ext   *extension.Host
	Dir   string

	restoreIDs func() // puts the file store's id counter back (set by ReopenInBubble)
}

// NewStore constructs the real store.
func NewStore(spec StoreSpec, ext *extension.Host) *StoreH {
	if ext == nil {
		ext = extension.NewHost()
	}
	h := &StoreH{Spec: spec, Ext: ext}
	switch spec.Backend {
	case "mem":
		cfg := config.Storage{MailboxMsgCap: spec.Cap, Params: map[string]string{}}
		if spec.MaxKB > 0 {
			cfg.Params["maxkb"] = strconv.Itoa(spec.MaxKB)
		}
		st, err := mem.New(cfg, ext)
		if err != nil {
			panic("VERIF-INFRA mem.New: " + err.Error())
		}
		h.Store = st
	case "file":
		h.Dir = spec.Dir
		if h.Dir == "" {
			h.Dir = FreshDir()
		}
		st, err := file.New(config.Storage{MailboxMsgCap: spec.Cap, Params: map[string]string{"path": h.Dir}}, ext)
		if err != nil {
			panic("VERIF-INFRA file.New: " + err.Error())
		}
		h.Store = st
	default:
		panic("VERIF-INFRA unknown backend " + spec.Backend)
	}
	return h
}

// Reopen drops the Store object and constructs a new one on the same path (file only).
func (h *StoreH) Reopen() {
	if h.Spec.Backend != "file" {
		return
	}
	// a restart is a new process: the message ID counter starts again
	file.VerifRestartIDs()
	st, err := file.New(config.Storage{MailboxMsgCap: h.Spec.Cap, Params: map[string]string{"path": h.Dir}}, h.Ext)
	if err != nil {
		panic("VERIF-INFRA file.New (reopen): " + err.Error())
	}
	h.Store = st
}

// ReopenInBubble is Reopen for callers inside a testing/synctest bubble (the counter restart
// must not leave a goroutine behind); Close puts the process-wide counter back.
func (h *StoreH) ReopenInBubble() {
	if h.Spec.Backend != "file" {
		return
	}
	restore := file.VerifRestartIDsInBubble()
	if h.restoreIDs == nil {
		h.restoreIDs = restore // the first one knows the counter that was there before
	}
	st, err := file.New(config.Storage{MailboxMsgCap: h.Spec.Cap, Params: map[string]string{"path": h.Dir}}, h.Ext)
	if err != nil {
		panic("VERIF-INFRA file.New (reopen): " + err.Error())
	}
	h.Store = st
}

// Close stops background goroutines and removes on-disk state.
func (h *StoreH) Close() {
	if h.restoreIDs != nil {
		h.restoreIDs()
		h.restoreIDs = nil
	}
	if ms, ok := h.Store.(*mem.Store); ok {
		ms.VerifStop()
	}
	if h.Dir != "" && h.Spec.Dir == "" {
		_ = os.RemoveAll(h.Dir)
	}
}

// Delivery builds the storage.Message handed to AddMessage.
func Delivery(mb, from string, to []string, subject, body string, date time.Time) *message.Delivery {
	var toA []*mail.Address
	for _, t := range to {
		toA = append(toA, &mail.Address{Address: t})
	}
	return &message.Delivery{
		Meta: event.MessageMetadata{
			Mailbox: mb, From: &mail.Address{Address: from}, To: toA, Date: date, Subject: subject,
			Size: int64(len(body)),
		},
		Reader: strings.NewReader(body),
	}
}

// ObsMsg is what the implementation shows for one message.
type ObsMsg struct {
	ID, Mailbox, From, Subject string
	To                         []string
	Size                       int64
	Seen                       bool
	DateNS                     int64
	Body                       string
	BodyErr                    string
}

// Observe reads everything a storage.Message offers.
func Observe(m storage.Message) ObsMsg {
	o := ObsMsg{ID: m.ID(), Mailbox: m.Mailbox(), Subject: m.Subject(), Size: m.Size(), Seen: m.Seen(), DateNS: m.Date().UnixNano()}
	if f := m.From(); f != nil {
		o.From = f.Address
	}
	for _, t := range m.To() {
		if t != nil {
			o.To = append(o.To, t.Address)
		}
	}
	// Two readers of the same message, opened one after the other and read interleaved (as two
	// clients fetching one message at the same time do): each is a reader of its own.
	r, err := m.Source()
	if err != nil {
		o.BodyErr = err.Error()
		return o
	}
	head := make([]byte, 7)
	n, _ := io.ReadFull(r, head)
	head = head[:n]
	r2, err2 := m.Source()
	if err2 != nil {
		_ = r.Close()
		o.BodyErr = "second reader: " + err2.Error()
		return o
	}
	b2, err2 := io.ReadAll(r2)
	_ = r2.Close()
	rest, err := io.ReadAll(r)
	_ = r.Close()
	if err != nil {
		o.BodyErr = err.Error()
	} else if err2 != nil {
		o.BodyErr = "second reader: " + err2.Error()
	}
	o.Body = string(head) + string(rest)
	if o.BodyErr == "" && string(b2) != o.Body {
		o.BodyErr = fmt.Sprintf("two readers of one message, read interleaved, disagree: the first read %d bytes, the second %d", len(o.Body), len(b2))
	}
	return o
}

// DiffMsg compares an observed message with the model's; "" when equal.  checkDate is false
// where the model does not know the date.
func DiffMsg(o ObsMsg, m *model.Msg, checkDate bool) string {
	var d []string
	if o.ID != m.ID {
		d = append(d, fmt.Sprintf("id %q want %q", o.ID, m.ID))
	}
	if o.Mailbox != m.Mailbox {
		d = append(d, fmt.Sprintf("mailbox %q want %q", o.Mailbox, m.Mailbox))
	}
	if o.From != m.From {
		d = append(d, fmt.Sprintf("from %q want %q", o.From, m.From))
	}
	if strings.Join(o.To, ",") != strings.Join(m.To, ",") {
		d = append(d, fmt.Sprintf("to %v want %v", o.To, m.To))
	}
	if o.Subject != m.Subject {
		d = append(d, fmt.Sprintf("subject %q want %q", o.Subject, m.Subject))
	}
	if o.Size != m.Size {
		d = append(d, fmt.Sprintf("size %d want %d", o.Size, m.Size))
	}
	if o.Seen != m.Seen {
		d = append(d, fmt.Sprintf("seen %v want %v", o.Seen, m.Seen))
	}
	if o.BodyErr != "" {
		d = append(d, "source error: "+o.BodyErr)
	} else if o.Body != m.Body {
		d = append(d, fmt.Sprintf("content %q want %q", clip(o.Body), clip(m.Body)))
	}
	if checkDate && o.DateNS != m.DateNS {
		d = append(d, fmt.Sprintf("date %d want %d", o.DateNS, m.DateNS))
	}
	return strings.Join(d, "; ")
}

func clip(s string) string {
	if len(s) > 60 {
		return s[:60] + "…"
	}
	return s
}

// DiffBox compares GetMessages(mb) with the model; "" when equal.
func DiffBox(st storage.Store, mo *model.Store, mb string, checkDate bool) string {
	ms, err := st.GetMessages(mb)
	if err != nil {
		return fmt.Sprintf("GetMessages(%q) error: %v", mb, err)
	}
	want := mo.Boxes[mb]
	if len(ms) != len(want) {
		var ids []string
		for _, m := range ms {
			ids = append(ids, m.ID())
		}
		var wids []string
		for _, m := range want {
			wids = append(wids, m.ID)
		}
		return fmt.Sprintf("GetMessages(%q) lists %d messages %v, model has %d %v", mb, len(ms), ids, len(want), wids)
	}
	for i, m := range ms {
		if d := DiffMsg(Observe(m), want[i], checkDate); d != "" {
			return fmt.Sprintf("GetMessages(%q)[%d]: %s", mb, i, d)
		}
	}
	return ""
}

// DiffVisit compares VisitMailboxes with the model: every non-empty model mailbox is visited
// exactly once with its messages in order; mailboxes the model holds empty may be visited (with
// no messages) or not.
func DiffVisit(st storage.Store, mo *model.Store, checkDate bool) string {
	seen := map[string]int{}
	var diffs []string
	err := st.VisitMailboxes(func(ms []storage.Message) bool {
		if len(ms) == 0 {
			return true
		}
		mb := ms[0].Mailbox()
		seen[mb]++
		want := mo.Boxes[mb]
		if len(ms) != len(want) {
			diffs = append(diffs, fmt.Sprintf("visit of %q shows %d messages, model has %d", mb, len(ms), len(want)))
			return true
		}
		for i, m := range ms {
			if d := DiffMsg(Observe(m), want[i], checkDate); d != "" {
				diffs = append(diffs, fmt.Sprintf("visit %q[%d]: %s", mb, i, d))
				break
			}
		}
		return true
	})
	if err != nil {
		return "VisitMailboxes error: " + err.Error()
	}
	for _, n := range mo.Names() {
		if seen[n] != 1 {
			diffs = append(diffs, fmt.Sprintf("mailbox %q visited %d times, want 1", n, seen[n]))
		}
	}
	var extra []string
	for n := range seen {
		if len(mo.Boxes[n]) == 0 {
			extra = append(extra, n)
		}
	}
	sort.Strings(extra)
	for _, n := range extra {
		diffs = append(diffs, fmt.Sprintf("visit shows messages in %q which the model holds empty", n))
	}
	// the visit contract: once the visitor has returned false it is not called again
	if len(diffs) == 0 && len(mo.Names()) >= 2 {
		calls := 0
		_ = st.VisitMailboxes(func(ms []storage.Message) bool {
			if len(ms) == 0 {
				return true
			}
			calls++
			return false
		})
		if calls != 1 {
			diffs = append(diffs, fmt.Sprintf("a visitor that returned false on its first non-empty mailbox was called for %d mailboxes (the visit must stop)", calls))
		}
	}
	return strings.Join(diffs, "; ")
}
