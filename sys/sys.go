package sys

import (
	"bytes"
	"errors"
	"fmt"
	"io"
	"net"
	"net/http"
	"net/http/httptest"
	"strconv"
	"strings"
	"sync"
	"sync/atomic"
	"time"

	"github.com/gorilla/mux"
	"github.com/inbucket/inbucket/v3/pkg/config"
	"github.com/inbucket/inbucket/v3/pkg/extension"
	"github.com/inbucket/inbucket/v3/pkg/extension/luahost"
	"github.com/inbucket/inbucket/v3/pkg/message"
	"github.com/inbucket/inbucket/v3/pkg/msghub"
	"github.com/inbucket/inbucket/v3/pkg/policy"
	"github.com/inbucket/inbucket/v3/pkg/rest"
	"github.com/inbucket/inbucket/v3/pkg/server/pop3"
	"github.com/inbucket/inbucket/v3/pkg/server/smtp"
	"github.com/inbucket/inbucket/v3/pkg/server/web"
	"github.com/inbucket/inbucket/v3/pkg/storage"
	"github.com/inbucket/inbucket/v3/pkg/stringutil"
	"github.com/inbucket/inbucket/v3/pkg/webui"
	"github.com/rs/zerolog"
)

// Spec describes one assembled system.
type Spec struct {
	Store    StoreSpec
	Naming   string // local | full | domain
	SMTP     config.SMTP
	BasePath string
	Lua      string // Lua script source, "" = none
	Web      bool   // build the HTTP router (process-global in inbucket: one at a time)
	History  int    // monitor history length (0 = 30)
	NoHub    bool
	POP3TLS  bool // POP3 offers STLS (self-signed test certificate), not forced
	SMTPTLS  bool // SMTP offers STARTTLS (same certificate), not forced
	// AddFault makes the store refuse deliveries (an environment fault: the disk, the descriptor
	// table, the network file system says no).  Only the message manager sees it: POP3, REST and
	// the oracle read the real store.
	AddFault *AddFault
	// PreLua / PostLua register Go listeners before / after the Lua host registers its own.
	PreLua, PostLua func(*extension.Host) `json:"-"`
}

// AddFault: the At-th AddMessage call of the system (1-based) fails before anything is written;
// with Persistent every later one fails too.  Hits counts the refused calls.
type AddFault struct {
	At         int
	Persistent bool
	calls      atomic.Int64
	Hits       atomic.Int64 `json:"-"`
}

type faultStore struct {
	storage.Store
	f *AddFault
}

func (fs *faultStore) AddMessage(m storage.Message) (string, error) {
	n := int(fs.f.calls.Add(1))
	if n == fs.f.At || (fs.f.Persistent && n > fs.f.At) {
		fs.f.Hits.Add(1)
		return "", errors.New("verif: injected store failure (too many open files)")
	}
	return fs.Store.AddMessage(m)
}

// DefaultSMTP is a permissive SMTP configuration.
func DefaultSMTP() config.SMTP {
	return config.SMTP{
		Domain: "verif.test", MaxRecipients: 200, MaxMessageBytes: 10240000,
		DefaultAccept: true, DefaultStore: true, Timeout: 300 * time.Second,
	}
}

// Sys is the assembled system: the same wiring as server.FullAssembly, without TCP.
type Sys struct {
	Spec   Spec
	Conf   *config.Root
	Ext    *extension.Host
	StoreH *StoreH
	Policy *policy.Addressing
	Mgr    *message.StoreManager
	SMTP   *smtp.Server
	POP3   *pop3.Server
	Hub    *msghub.Hub
	Lua    *luahost.Host
	Router *mux.Router
	nconn  atomic.Int64
}

// New assembles a system.
func New(spec Spec) *Sys {
	if spec.SMTPTLS {
		spec.SMTP.TLSEnabled = true
		spec.SMTP.TLSCert, spec.SMTP.TLSPrivKey = TestCert()
	}
	conf := &config.Root{SMTP: spec.SMTP}
	switch spec.Naming {
	case "", "local":
		conf.MailboxNaming = config.LocalNaming
	case "full":
		conf.MailboxNaming = config.FullNaming
	case "domain":
		conf.MailboxNaming = config.DomainNaming
	default:
		panic("VERIF-INFRA naming " + spec.Naming)
	}
	conf.POP3 = config.POP3{Domain: "verif.test", Timeout: 600 * time.Second}
	if spec.POP3TLS {
		conf.POP3.TLSEnabled = true
		conf.POP3.TLSCert, conf.POP3.TLSPrivKey = TestCert()
	}
	conf.Web = config.Web{BasePath: spec.BasePath, UIDir: "/nonexistent", MonitorHistory: spec.History, MonitorVisible: true}
	if conf.Web.MonitorHistory == 0 {
		conf.Web.MonitorHistory = 30
	}
	s := &Sys{Spec: spec, Conf: conf, Ext: extension.NewHost()}
	if spec.PreLua != nil {
		spec.PreLua(s.Ext)
	}
	if spec.Lua != "" {
		lh, err := luahost.NewFromReader(zerolog.Nop(), s.Ext, strings.NewReader(spec.Lua), "verif.lua")
		if err != nil {
			panic("VERIF-INFRA lua: " + err.Error())
		}
		s.Lua = lh
	}
	if spec.PostLua != nil {
		spec.PostLua(s.Ext)
	}
	s.StoreH = NewStore(spec.Store, s.Ext)
	s.Policy = &policy.Addressing{Config: conf}
	if !spec.NoHub {
		s.Hub = msghub.New(conf.Web.MonitorHistory, s.Ext)
	}
	var mgrStore storage.Store = s.StoreH.Store
	if spec.AddFault != nil {
		mgrStore = &faultStore{Store: mgrStore, f: spec.AddFault}
	}
	s.Mgr = &message.StoreManager{AddrPolicy: s.Policy, Store: mgrStore, ExtHost: s.Ext}
	if spec.Web {
		web.VerifResetRouter()
		prefix := stringutil.MakePathPrefixer(conf.Web.BasePath)
		webui.SetupRoutes(web.Router.PathPrefix(prefix("/serve/")).Subrouter())
		rest.SetupRoutes(web.Router.PathPrefix(prefix("/api/")).Subrouter())
		web.NewServer(conf, s.Mgr, s.Hub)
		s.Router = web.Router
	}
	p3, err := pop3.NewServer(conf.POP3, s.StoreH.Store)
	if err != nil {
		panic("VERIF-INFRA pop3: " + err.Error())
	}
	p3.SetAddressPolicy(s.Policy) // as server.FullAssembly does
	s.POP3 = p3
	s.SMTP = smtp.NewServer(conf.SMTP, s.Mgr, s.Policy, s.Ext)
	return s
}

// Close stops the store's background goroutine and removes its directory.
func (s *Sys) Close() { s.StoreH.Close() }

// ---------------------------------------------------------------------------------------------
// line-protocol client over net.Pipe

// Conn is the client side of a session served by the real session code.
type Conn struct {
	c    net.Conn
	Done chan struct{} // closed when the server-side session function has returned
	// Bubble: the caller runs inside a testing/synctest bubble; blocking waits are replaced by
	// "act, wait for exact quiescence, look", so a missing reply or a wedged peer is decided
	// exactly and the fake clock never advances.
	Bubble bool

	mu     sync.Mutex
	cond   *sync.Cond
	buf    bytes.Buffer
	rdErr  error
	closed bool
	paused bool // the reader goroutine has been stopped (SendAndVanish)
}

// Spawn starts the goroutine that runs a server-side session.  The scheduler build replaces it
// with vsched.Go so that the session is a managed goroutine (parks at its scheduling points)
// instead of running free.
var Spawn = func(f func()) { go f() }

func newConn(serve func(net.Conn)) *Conn {
	sc, cc := net.Pipe()
	k := &Conn{c: cc, Done: make(chan struct{})}
	k.cond = sync.NewCond(&k.mu)
	Spawn(func() {
		defer close(k.Done)
		serve(sc)
	})
	go func() {
		b := make([]byte, 65536)
		for {
			n, err := cc.Read(b)
			k.mu.Lock()
			k.buf.Write(b[:n])
			if err != nil && k.paused {
				// SendAndVanish stopped the reading on purpose
				k.mu.Unlock()
				return
			}
			if err != nil {
				k.rdErr = err
			}
			k.cond.Broadcast()
			k.mu.Unlock()
			if err != nil {
				return
			}
		}
	}()
	return k
}

// DialSMTP starts a real SMTP session on an in-memory connection.
func (s *Sys) DialSMTP() *Conn {
	id := int(s.nconn.Add(1))
	return newConn(func(c net.Conn) { s.SMTP.VerifServeConn(id, c) })
}

// DialSMTPRaw starts a real SMTP session and hands out the client end of the connection itself
// (no reader goroutine: the caller does blocking I/O, e.g. to run a TLS handshake on it).
func (s *Sys) DialSMTPRaw() (client net.Conn, done chan struct{}) {
	id := int(s.nconn.Add(1))
	sc, cc := net.Pipe()
	done = make(chan struct{})
	Spawn(func() {
		defer close(done)
		s.SMTP.VerifServeConn(id, sc)
	})
	return cc, done
}

// DialPOP3 starts a real POP3 session on an in-memory connection.
func (s *Sys) DialPOP3() *Conn {
	id := int(s.nconn.Add(1))
	return newConn(func(c net.Conn) { s.POP3.VerifServeConn(id, c) })
}

// BubbleWait is synctest.Wait when the binary was built with a toolchain that has it.
var BubbleWait func()

// ErrNotConsumed: in bubble mode, the peer is durably blocked without having read the bytes.
var ErrNotConsumed = fmt.Errorf("peer is not reading (durably blocked or gone)")

// Write sends raw bytes; an error means the server side is gone (or, in bubble mode, that it
// is durably blocked without reading).
func (k *Conn) Write(b []byte) error {
	if k.Bubble {
		var done atomic.Bool
		var werr error
		go func() {
			_, werr = k.c.Write(b)
			done.Store(true)
		}()
		BubbleWait()
		if !done.Load() {
			return ErrNotConsumed
		}
		return werr
	}
	_, err := k.c.Write(b)
	return err
}

// SendAndVanish writes one line and is gone before the server can answer it: the client stops
// reading first, so the server's reply cannot be written, then sends the line (the server
// consumes it), waits until the server is blocked writing its answer, and closes.
func (k *Conn) SendAndVanish(line string) error {
	k.mu.Lock()
	k.paused = true
	k.mu.Unlock()
	_ = k.c.SetReadDeadline(time.Unix(1, 0)) // ends the pending Read of the reader goroutine
	if k.Bubble {
		BubbleWait()
	}
	err := k.Write([]byte(line + "\r\n"))
	if k.Bubble {
		BubbleWait()
	}
	k.Close()
	return err
}

// Send writes one CRLF-terminated line.
func (k *Conn) Send(line string) error { return k.Write([]byte(line + "\r\n")) }

// ReadLine returns the next line the server sent (without CRLF).  ok=false: the connection
// ended before a complete line arrived (rest holds the partial data).
func (k *Conn) ReadLine() (line string, ok bool) {
	if k.Bubble {
		BubbleWait()
	}
	k.mu.Lock()
	defer k.mu.Unlock()
	for {
		b := k.buf.Bytes()
		if i := bytes.IndexByte(b, '\n'); i >= 0 {
			line = string(b[:i+1])
			k.buf.Next(i + 1)
			return line, true
		}
		if k.rdErr != nil || k.Bubble {
			// bubble mode: everything is quiescent, so no further byte will arrive unprompted
			line = k.buf.String()
			k.buf.Reset()
			return line, false
		}
		k.cond.Wait()
	}
}

// Ended reports (without blocking) whether the server-side session function has returned.
func (k *Conn) Ended() bool {
	if k.Bubble {
		BubbleWait()
	}
	select {
	case <-k.Done:
		return true
	default:
		return false
	}
}

// Pending returns (and keeps) what has been received but not consumed.
func (k *Conn) Pending() string {
	if k.Bubble {
		BubbleWait()
	}
	k.mu.Lock()
	defer k.mu.Unlock()
	return k.buf.String()
}

// Close closes the client side.
func (k *Conn) Close() {
	k.mu.Lock()
	cl := k.closed
	k.closed = true
	k.mu.Unlock()
	if !cl {
		_ = k.c.Close()
	}
}

// Reply is one SMTP reply (possibly multi-line).
type Reply struct {
	Code  int
	Lines []string // raw lines incl. CRLF
	OK    bool     // a complete, well-formed reply was received
	Why   string   // why not OK
}

// Class returns the first digit of the code (0 when no reply).
func (r Reply) Class() int { return r.Code / 100 }

func (r Reply) String() string {
	if len(r.Lines) == 0 {
		return "<no reply: " + r.Why + ">"
	}
	return strings.TrimRight(r.Lines[len(r.Lines)-1], "\r\n")
}

// ReadSMTPReply reads exactly one reply and validates its form: zero or more "ddd-…" lines
// closed by one "ddd …" line, same code on every line, each line ending in CRLF.
func (k *Conn) ReadSMTPReply() Reply {
	var r Reply
	for {
		l, ok := k.ReadLine()
		if !ok {
			r.Why = fmt.Sprintf("connection ended inside/before a reply (partial %q)", l)
			return r
		}
		r.Lines = append(r.Lines, l)
		if !strings.HasSuffix(l, "\r\n") {
			r.Why = fmt.Sprintf("reply line %q does not end in CRLF", l)
			return r
		}
		if len(l) < 5 || !isDigits(l[:3]) || (l[3] != ' ' && l[3] != '-') {
			r.Why = fmt.Sprintf("malformed reply line %q", l)
			return r
		}
		code := int(l[0]-'0')*100 + int(l[1]-'0')*10 + int(l[2]-'0')
		if r.Code != 0 && code != r.Code {
			r.Why = fmt.Sprintf("reply code changes inside a multi-line reply: %q", l)
			return r
		}
		r.Code = code
		if l[3] == ' ' {
			r.OK = true
			return r
		}
	}
}

func isDigits(s string) bool {
	for i := 0; i < len(s); i++ {
		if s[i] < '0' || s[i] > '9' {
			return false
		}
	}
	return true
}

// ---------------------------------------------------------------------------------------------
// HTTP

// HTTPResp is a recorded HTTP response.
type HTTPResp struct {
	Status int
	Body   []byte
	Header http.Header
	Panic  any
}

// HTTP performs one request against the real router, in-process.
func (s *Sys) HTTP(method, path string, body []byte) (resp HTTPResp) {
	var rd io.Reader
	if body != nil {
		rd = bytes.NewReader(body)
	}
	req := httptest.NewRequest(method, "http://verif.test"+path, rd)
	rec := newFramedRecorder()
	func() {
		defer func() {
			if r := recover(); r != nil {
				resp.Panic = r
			}
		}()
		s.Router.ServeHTTP(rec, req)
	}()
	resp.Status = rec.Code
	resp.Body = rec.Body.Bytes()
	resp.Header = rec.Header()
	if resp.Panic == nil && rec.short() {
		resp.Panic = fmt.Sprintf("the handler declared Content-Length %d and wrote %d bytes (net/http would break the connection)", rec.declared, rec.Body.Len())
	}
	return resp
}

// framedRecorder is httptest's recorder with net/http's response framing: once a Content-Length
// has been declared (headers are frozen at the first WriteHeader/Write) the body cannot grow past
// it - the excess is refused with http.ErrContentLength and never reaches the client.
type framedRecorder struct {
	*httptest.ResponseRecorder
	frozen   bool
	declared int64 // -1: none
}

func newFramedRecorder() *framedRecorder {
	return &framedRecorder{ResponseRecorder: httptest.NewRecorder(), declared: -1}
}

func (r *framedRecorder) freeze() {
	if r.frozen {
		return
	}
	r.frozen = true
	if cl := r.Header().Get("Content-Length"); cl != "" {
		if n, err := strconv.ParseInt(cl, 10, 64); err == nil && n >= 0 {
			r.declared = n
		}
	}
}

func (r *framedRecorder) WriteHeader(code int) {
	r.freeze()
	r.ResponseRecorder.WriteHeader(code)
}

func (r *framedRecorder) Write(b []byte) (int, error) {
	r.freeze()
	if r.declared >= 0 {
		room := r.declared - int64(r.Body.Len())
		if int64(len(b)) > room {
			if room > 0 {
				_, _ = r.ResponseRecorder.Write(b[:room])
			}
			return int(max(room, 0)), http.ErrContentLength
		}
	}
	return r.ResponseRecorder.Write(b)
}

func (r *framedRecorder) WriteString(str string) (int, error) { return r.Write([]byte(str)) }

func (r *framedRecorder) short() bool {
	return r.declared >= 0 && int64(r.Body.Len()) < r.declared && r.Code != http.StatusNotModified && r.Code != http.StatusNoContent
}

// abortWriter is a client that goes away: the first failAfter bytes of the response are taken,
// every later Write fails (what net/http reports once the peer has reset the connection).
type abortWriter struct {
	h         http.Header
	failAfter int
	n         int
	Status    int
}

func (w *abortWriter) Header() http.Header { return w.h }
func (w *abortWriter) WriteHeader(c int) {
	if w.Status == 0 {
		w.Status = c
	}
}
func (w *abortWriter) Write(b []byte) (int, error) {
	if w.Status == 0 {
		w.Status = 200
	}
	room := w.failAfter - w.n
	if room >= len(b) {
		w.n += len(b)
		return len(b), nil
	}
	if room < 0 {
		room = 0
	}
	w.n += room
	return room, errors.New("write: connection reset by peer")
}

// HTTPAbort performs one request whose client stops reading after failAfter bytes of the body.
func (s *Sys) HTTPAbort(method, path string, failAfter int) (resp HTTPResp) {
	req := httptest.NewRequest(method, "http://verif.test"+path, nil)
	w := &abortWriter{h: http.Header{}, failAfter: failAfter}
	func() {
		defer func() {
			if r := recover(); r != nil {
				resp.Panic = r
			}
		}()
		s.Router.ServeHTTP(w, req)
	}()
	resp.Status = w.Status
	return resp
}

// RoundTrip lets the bundled Go client talk to the in-process router.
func (s *Sys) RoundTrip(req *http.Request) (*http.Response, error) {
	rec := newFramedRecorder()
	var pv any
	func() {
		defer func() { pv = recover() }()
		// the server sees what a real server would: RequestURI set, URL relative
		sreq := req.Clone(req.Context())
		sreq.RequestURI = req.URL.RequestURI()
		if sreq.Body == nil {
			sreq.Body = http.NoBody // a real server never hands a nil Body to a handler
		}
		s.Router.ServeHTTP(rec, sreq)
	}()
	if pv != nil {
		return nil, fmt.Errorf("handler panic (net/http would drop the connection): %v", pv)
	}
	if rec.short() {
		return nil, fmt.Errorf("unexpected EOF: the handler declared Content-Length %d and wrote %d bytes", rec.declared, rec.Body.Len())
	}
	res := rec.Result()
	res.Request = req
	return res, nil
}
