package sys

import (
	"crypto/ed25519"
	"crypto/rand"
	"crypto/x509"
	"crypto/x509/pkix"
	"encoding/pem"
	"math/big"
	"os"
	"path/filepath"
	"sync"
	"time"
)

var (
	certOnce          sync.Once
	certFile, keyFile string
)

// TestCert returns the paths of a self-signed Ed25519 certificate and its key (generated once per
// process; valid 1990–2100 so that it is valid on a synctest bubble's clock too).  Ed25519 keeps
// every handshake message at a fixed length, so the I/O pattern of a handshake is the same in
// every execution.
func TestCert() (cert, key string) {
	certOnce.Do(func() {
		pub, priv, err := ed25519.GenerateKey(rand.Reader)
		if err != nil {
			panic("VERIF-INFRA keygen: " + err.Error())
		}
		tmpl := &x509.Certificate{
			SerialNumber: big.NewInt(1), Subject: pkix.Name{CommonName: "verif.test"},
			NotBefore: time.Date(1990, 1, 1, 0, 0, 0, 0, time.UTC), NotAfter: time.Date(2100, 1, 1, 0, 0, 0, 0, time.UTC),
			KeyUsage: x509.KeyUsageDigitalSignature, ExtKeyUsage: []x509.ExtKeyUsage{x509.ExtKeyUsageServerAuth},
			DNSNames: []string{"verif.test"},
		}
		der, err := x509.CreateCertificate(rand.Reader, tmpl, tmpl, pub, priv)
		if err != nil {
			panic("VERIF-INFRA cert: " + err.Error())
		}
		kb, err := x509.MarshalPKCS8PrivateKey(priv)
		if err != nil {
			panic("VERIF-INFRA key: " + err.Error())
		}
		dir := FreshDir()
		certFile, keyFile = filepath.Join(dir, "cert.pem"), filepath.Join(dir, "key.pem")
		if err := os.WriteFile(certFile, pem.EncodeToMemory(&pem.Block{Type: "CERTIFICATE", Bytes: der}), 0o600); err != nil {
			panic("VERIF-INFRA cert file: " + err.Error())
		}
		if err := os.WriteFile(keyFile, pem.EncodeToMemory(&pem.Block{Type: "PRIVATE KEY", Bytes: kb}), 0o600); err != nil {
			panic("VERIF-INFRA key file: " + err.Error())
		}
	})
	return certFile, keyFile
}
