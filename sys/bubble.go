//go:build go1.25

package sys

import (
	"fmt"
	"testing"
	"testing/synctest"
)

func init() { BubbleWait = synctest.Wait }

// InBubble runs f inside a synctest bubble.  Goroutines that are still blocked when f returns
// make synctest panic ("deadlock: main bubble goroutine has exited but blocked goroutines
// remain"); that panic is returned as leaked != "" so the caller can report a wedge.
func InBubble(t *testing.T, f func()) (leaked string) {
	defer func() {
		if r := recover(); r != nil {
			leaked = fmt.Sprint(r)
		}
	}()
	synctest.Test(t, func(*testing.T) { f() })
	return ""
}
