# Source this: offline Go environment shared by every command in /verif.
export GOFLAGS=-mod=mod GOPROXY=off GOSUMDB=off GOTOOLCHAIN=local
export GONOSUMDB='*' GONOSUMCHECK=1 GOFLAGS="-mod=mod"
