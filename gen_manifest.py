#!/usr/bin/env python3
"""Regenerates MANIFEST.json from the table below (kept next to the runner's metas.go)."""
import json, subprocess
checks = {
 "C01": ("exploration", "bounded-exhaustive enumeration of SMTP connection scripts × naming × store policy × backend on the real session code, store compared with a reference model after every transaction; plus stateless exploration of all schedules (preemption-bounded) of two overlapping transactions under a controlled scheduler",
         "Every connection script of the bounded grammar is run on a live in-process session; after every transaction end all mailboxes are compared with the model. Two sessions transferring and delivering at the same time are explored under every schedule within the bound: both acknowledged, each stored exactly once.", "Trusted: reply classes as the observable of acceptance; model.SimpleMailbox for the plain addresses used.", "3.C01"),
 "C02": ("exploration", "bounded-exhaustive enumeration of message bodies (token sequences + size ladder) through real SMTP and all four read interfaces, inside synctest bubbles; plus stateless exploration of all schedules (preemption-bounded) of two concurrent DATA transfers under a controlled scheduler with a deterministic sync.Pool",
         "Every body of the bounded alphabet is transmitted and read back through store, REST, web UI and POP3 and compared byte-wise modulo line-ending normalisation. Two sessions transferring different messages at the same time are explored under every schedule within the bound: each stored message carries the bytes its own session sent.", "Trusted: client dot-stuffs after CRLF and bare LF; NormLE canonical form; testing/synctest quiescence.", "3.C02"),
 "C03": ("exploration", "bounded-exhaustive enumeration of SMTP command-line sequences (full tree + explicit-state search) and of every byte-offset cut of valid dialogues, real session code in synctest bubbles vs envelope model",
         "All command sequences to the bound, one well-formed reply per line decided by exact quiescence, gating of MAIL/RCPT/DATA, store equals deliveries to recipients accepted since the latest MAIL; every cut offset of three dialogues in lock-step and pipelined mode.", "Trusted: replies the statement leaves open are not pinned; net.Pipe as the connection; synctest's durably-blocked notion; go1.26.8.", "3.C03"),
 "C04": ("exploration", "exhaustive enumeration of all address strings up to a length over a 13-symbol alphabet in three naming modes, metamorphic relations on the real naming functions; delivery/read agreement on live interfaces",
         "Every string to the bound is fed to the real NewRecipient/ExtractMailbox and the relations the statement names are checked; structured addresses are delivered and fetched by address and by name through REST, web UI and POP3.", "Trusted: relations only, no expected values.", "3.C04"),
 "C05": ("exploration", "exhaustive cross product of policy configurations (loaded through the real config.Process) × probe domains on the real predicates and live sessions; exhaustive pattern×string enumeration of the wildcard matcher vs a reference",
         "Full product of switches and lists at predicate level, live sessions for all size-≤1 lists × recipient limits × orders, all pattern/string pairs to the bound.", "Trusted: model.Policy transcribes doc/config.md.", "3.C05"),
 "C06": ("exploration", "exhaustive enumeration of limit × size-boundary ladder × SIZE-parameter variants × backend on live sessions",
         "Each case is a live session with a follow-up transaction; accept/refuse and the store are compared with the rule, with an indifference band between LF and CRLF size.", "Trusted: boundary ladder stands for all sizes.", "3.C06"),
 "C07": ("exploration", "bounded-exhaustive enumeration of store operation sequences + explicit-state search, real stores vs reference model",
         "Every operation sequence over a colliding 24-op alphabet up to the stated depth is executed on the real mem and file stores and compared step by step with an ordered-mailbox model; deeper layers by explicit-state search on the abstract state; plus every op pair from an 11-message mailbox.", "Trusted: model.Store as the specification; ids abstracted by arrival ordinal; I/O errors outside the model.", "3.C07"),
 "C08": ("exploration", "bounded-exhaustive enumeration of sized delivery/removal histories × limit configurations, real stores vs eviction model",
         "All histories of sized adds/removes/purges up to the bound under every combination of cap and size limit are run on the real stores and compared with the eviction model after every step; a crash of the enforcer goroutine is caught as a process crash of the worker.", "Trusted: model.Store eviction rule; mem eviction is synchronous with AddMessage.", "3.C08"),
 "C09": ("model_checking", "stateless DFS over all schedules of the real goroutines under a controlled scheduler (testing/synctest + AST-instrumented sync/channel/go sites + runtime select/map patches), iterative preemption bounding; linearizability of every schedule's history checked with porcupine; free-running -race pass",
         "Every schedule within the preemption bound of 11 small scenarios on the real stores (with their background goroutines) is executed; each must finish, not panic, and be linearizable w.r.t. the store model including a final listing.", "Trusted: DRF atomicity between scheduling points (guarded by the -race pass), synctest, two runtime patches, porcupine.", "3.C09"),
 "C10": ("exploration", "bounded-exhaustive enumeration of store histories with close/reopen at every position, file store vs model",
         "All sequences over the C07 alphabet plus reopen (a new process: the id counter restarts), retention-scan and a delivery whose source fails half way, reopen allowed at every position any number of times; reopen must be the identity on the model with concrete ids.", "Trusted: restart is modelled as constructing a new file.Store on the same directory.", "3.C10"),
 "C11": ("fault_enumeration", "exhaustive crash-point enumeration: real syscalls of the real file-store write path recorded with strace; every syscall prefix, every byte-torn index write and every unlink subset materialised as a directory image and recovered with the real store",
         "For every bounded history the last operation's recorded file-system effects are cut at every point (syscall granularity, byte granularity inside index writes, all subsets of RemoveAll's sibling unlinks); each image is recovered by a fresh real store and checked for readability, integrity of untouched data, atomicity of the interrupted operation and acceptance of new mail; then operations continue from the recovered state in two orders (deliver, remove one by one / remove one by one, deliver), each step re-checked through a freshly opened store.", "Trusted: process-death fault model (no fsync in the store, no power-loss reordering); strace's log; unknown mutating syscalls fail the check loudly.", "3.C11"),
 "C12": ("model_checking", "exact-clock exhaustive enumeration of age assignments in synctest bubbles + stateless DFS over all schedules (preemption-bounded, fake-clock ticks and multi-ready selects as explicit events) of the real retention scanner against deliveries, removals and cancellation",
         "Sequential: every age assignment around the cutoff at 1ns resolution; concurrent: every schedule of DoScan/Start/Join against a deliverer, a remover and a canceller on both stores.", "Trusted: fake clock; scheduler assumptions as C09.", "3.C12"),
 "C13": ("exploration", "bounded-exhaustive enumeration of POP3 command sequences with external mutations as events (full tree + explicit-state search), real session code in synctest bubbles vs POP3 snapshot model; every prefix doubles as the dropped-connection case",
         "All sequences over a 59-element alphabet from the greeting, and a second search from a logged-in session (non-initial state) over the TRANSACTION-state alphabet; STAT/LIST/UIDL/RETR/TOP/DELE/RSET pinned against the login-time snapshot; commit rule checked after every sequence.", "Trusted: AUTHORIZATION-state replies not pinned; synctest; go1.26.8.", "3.C13"),
 "C14": ("exploration", "bounded-exhaustive enumeration of API call sequences mixed with deliveries × mailbox names × backend × base path through the real router and the bundled Go client",
         "Every sequence over a 37-op alphabet (incl. requests whose client resets the connection after the first body byte); status, body and the store's own state after every call.", "Trusted: percent-encoding client; panics caught at ServeHTTP.", "3.C14"),
 "C15": ("model_checking", "bounded-exhaustive hub operation sequences in synctest bubbles vs hub model + stateless DFS over all schedules of hub ∥ dispatcher ∥ healthy listeners ∥ failing/slow/closing real socket listeners",
         "Sequential semantics by exhaustive sequences with the real listeners; failure timing by exhaustive schedules within the preemption bound.", "Trusted: WSWriter replaced by a harness consumer through the verif hook; scheduler assumptions as C09.", "3.C15"),
 "C16": ("model_checking", "bounded-exhaustive histories × limits × backends with events counted at exact quiescence (synctest) + stateless DFS over all schedules of the asynchronous event dispatch with a scheduling point inside the listener body",
         "Accounting: stored − deleted must equal the store's listing after every step; ordering: no overlapping invocation, stored before deleted, delivery order, over all schedules.", "Trusted: accounting is relative to the store's own listing; scheduler assumptions as C09.", "3.C16"),
 "C17": ("exploration", "exhaustive enumeration of Lua scripts from a handler grammar × SMTP dialogues on live sessions vs a hook-decision model",
         "Every script of the grammar (singles+pairs quick, full product thorough) × 10 dialogues, plus Go listeners before/after the Lua one.", "Trusted: the grammar's declared semantics per variant.", "3.C17"),
 "C19": ("model_checking", "stateless DFS over all schedules (preemption-bounded) of the assembled real services (smtp/pop3 Start, serve, sessions, Drain on an in-memory listener; hub; retention scanner) with clients, a canceller, drainers and a late client",
         "Cancel is placed at every protocol state of an open session and Drain/Join/late dial are ordered in every way within the bound; oracle uses the client-observable definition of an open session (greeting received).", "Trusted: in-memory listener refuses dials after Close like TCP; scheduler assumptions as C09; TLS only as the POP3 STLS upgrade of scenario G11 (SMTP STARTTLS is not exercised).", "3.C19"),
 "C18": ("exploration", "exhaustive enumeration of HTML / CSS / text token sequences through the real sanitiser, output re-parsed by an independent HTML parser and an independent CSS-Syntax-3 declaration parser",
         "Every token sequence to the bound is sanitised and the re-parsed output checked for forbidden elements, handlers, javascript: URLs and non-allow-listed style properties; TextToHTML output must re-parse to the original text.", "Trusted: x/net/html as the browser's parser; the CSS oracle.", "3.C18"),
}
na = []
import os
all_ids = [json.loads(l)["id"] for l in open("/verif/properties.jsonl")]
for i in all_ids:
    if i not in checks:
        na.append({"property_id": i, "reason": "check not built yet in this commit (work in progress; see DESIGN.md section 3 for the planned bounded-exhaustive check)"})
hooks_commits = subprocess.run(["git","-C","/repo","log","--format=%h %s"],capture_output=True,text=True).stdout.splitlines()
m = {
 "version": 1,
 "setup_cmd": "./verif.sh setup",
 "hooks": {
   "guard": "verif",
   "enable": "go build/test -tags verif (files pkg/**/verif_export.go); scheduler-driven checks additionally use a go build -overlay generated from the working tree at check time",
   "baseline_off_cmd": "cd /repo && GOFLAGS=-mod=mod GOPROXY=off GOSUMDB=off go test -json -vet=off -count=1 -timeout 25m ./...",
   "source_commits": [l.split()[0] for l in hooks_commits if l.split(' ',1)[1].startswith("verif")],
   "add_only": True,
 },
 "engines": [
   {"name": "crashx", "path": "checks/c11.go", "serves_properties": ["C11"], "kind_free_text": "strace-recorded syscall log of the real write path → file-system effect replayer → exhaustive crash images (prefixes, torn writes, unlink subsets) → recovery with the real store"},
   {"name": "schedx", "path": "engine/ + checks/schedx.go", "serves_properties": ["C01","C02","C09","C12","C15","C16","C17","C19"], "kind_free_text": "hand-written stateless model checker for Go: controlled scheduler on testing/synctest (engine/vrt/vsched), sync/net shims (vsync, vnet), go/ast instrumenter producing a -overlay of every file under /repo/pkg from the working tree at check time, runtime patches for select and map iteration, DFS with iterative preemption bounding, replay-twice determinism check"},
   {"name": "seqx", "path": "fw/seq.go", "serves_properties": sorted(checks), "kind_free_text": "bounded-exhaustive operation-sequence / input explorer with explicit-state deduplication over the real implementation, compared with Go reference models; sessions run in testing/synctest bubbles where exact quiescence is needed"},
 ],
 "checks": [],
 "not_applicable": na,
 "notes": "All checks are bounded-exhaustive explorations of the real code (model checking family); see DESIGN.md. Commands rebuild from /repo's working tree on every invocation.",
}
for cid,(lvl,tech,text,note,ref) in sorted(checks.items()):
    m["checks"].append({
      "property_id": cid,
      "quick_cmd": f"./verif.sh check {cid} --tier quick",
      "thorough_cmd": f"./verif.sh check {cid} --tier thorough",
      "evidence_file": f"/verif/evidence/{cid}.json",
      "replay_cmd_template": f"./verif.sh replay {cid} {{path}}",
      "engine": "crashx" if cid == "C11" else ("schedx" if cid in ("C09","C12","C15","C16","C19") else "seqx"),
      "level_claimed": {"category": lvl, "text": text, "design_ref": ref},
      "level_note": note,
      "technique": tech,
    })
json.dump(m, open("/verif/MANIFEST.json","w"), indent=1)
print("wrote MANIFEST.json with", len(m["checks"]), "checks;", len(na), "not_applicable")
