#!/usr/bin/env python3
"""Regenerates MANIFEST.json from the table below (kept next to the runner's metas.go)."""
import json, subprocess
checks = {
 "C07": ("exploration", "bounded-exhaustive enumeration of store operation sequences + explicit-state search, real stores vs reference model",
         "Every operation sequence over a colliding 22-op alphabet up to the stated depth is executed on the real mem and file stores and compared step by step with an ordered-mailbox model; deeper layers by explicit-state search on the abstract state. Exhaustive within the bound, which is what a history-quantified property needs and a sampled test cannot give.",
         "Trusted: model.Store as the specification; ids abstracted by arrival ordinal; I/O errors outside the model.", "3.C07"),
 "C08": ("exploration", "bounded-exhaustive enumeration of sized delivery/removal histories × limit configurations, real stores vs eviction model",
         "All histories of sized adds/removes/purges up to the bound under every combination of cap and size limit are run on the real stores and compared with the eviction model after every step; a crash of the enforcer goroutine is caught as a process crash of the worker.",
         "Trusted: model.Store eviction rule (cap: newest kept; size: oldest-first across the store until the limit is met); mem eviction is synchronous with AddMessage.", "3.C08"),
 "C10": ("exploration", "bounded-exhaustive enumeration of store histories with close/reopen at every position, file store vs model",
         "All sequences over the C07 alphabet plus reopen and retention-scan, reopen allowed at every position any number of times; reopen must be the identity on the model with concrete ids.",
         "Trusted: restart is modelled as constructing a new file.Store on the same directory.", "3.C10"),
}
na = []
import os
all_ids = [json.loads(l)["id"] for l in open("/verif/properties.jsonl")]
for i in all_ids:
    if i not in checks:
        na.append({"property_id": i, "reason": "check not built yet in this commit (work in progress; see DESIGN.md section 3 for the planned bounded-exhaustive check)"})
hooks_commits = subprocess.run(["git","-C","/repo","log","--format=%h %s"],capture_output=True,text=True).stdout.splitlines()
m = {
 "version": 1,
 "setup_cmd": "./verif.sh setup",
 "hooks": {
   "guard": "verif",
   "enable": "go build/test -tags verif (files pkg/**/verif_export.go); scheduler-driven checks additionally use a go build -overlay generated from the working tree at check time",
   "baseline_off_cmd": "cd /repo && GOFLAGS=-mod=mod GOPROXY=off GOSUMDB=off go test -json -vet=off -count=1 -timeout 25m ./...",
   "source_commits": [l.split()[0] for l in hooks_commits if l.split(' ',1)[1].startswith("verif:")],
   "add_only": True,
 },
 "engines": [
   {"name": "seqx", "path": "fw/seq.go", "serves_properties": sorted(checks), "kind_free_text": "bounded-exhaustive operation-sequence explorer with explicit-state deduplication over the real implementation, compared with Go reference models"},
 ],
 "checks": [],
 "not_applicable": na,
 "notes": "All checks are bounded-exhaustive explorations of the real code (model checking family); see DESIGN.md. Commands rebuild from /repo's working tree on every invocation.",
}
for cid,(lvl,tech,text,note,ref) in sorted(checks.items()):
    m["checks"].append({
      "property_id": cid,
      "quick_cmd": f"./verif.sh check {cid} --tier quick",
      "thorough_cmd": f"./verif.sh check {cid} --tier thorough",
      "evidence_file": f"/verif/evidence/{cid}.json",
      "replay_cmd_template": f"./verif.sh replay {cid} {{path}}",
      "engine": "seqx",
      "level_claimed": {"category": lvl, "text": text, "design_ref": ref},
      "level_note": note,
      "technique": tech,
    })
json.dump(m, open("/verif/MANIFEST.json","w"), indent=1)
print("wrote MANIFEST.json with", len(m["checks"]), "checks;", len(na), "not_applicable")
