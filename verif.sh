#!/bin/sh
# Entry point of every registered command: rebuilds the runner (cached) and executes it.
cd "${VERIF_ROOT:-/verif}" || exit 2
. ./env.sh
# background runs on snapshots: VERIF_ROOT = snapshot of /verif, VERIF_REPO = snapshot of /repo
if [ -n "$VERIF_REPO" ] && [ "$PWD" != "/verif" ]; then
  go mod edit -replace "github.com/inbucket/inbucket/v3=$VERIF_REPO" || exit 2
fi
mkdir -p bin
go build -o bin/verif ./cmd/verif || { echo "BROKEN: runner build failed" >&2; exit 2; }
exec bin/verif "$@"
