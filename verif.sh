#!/bin/sh
# Entry point of every registered command: rebuilds the runner (cached) and executes it.
cd "${VERIF_ROOT:-/verif}" || exit 2
. ./env.sh
mkdir -p bin
go build -o bin/verif ./cmd/verif || { echo "BROKEN: runner build failed" >&2; exit 2; }
exec bin/verif "$@"
