package main

// metas describes every check: which clauses (parts) it has, which binary runs each, how many
// shards, the evidence level and the enumeration rule.
var metas = map[string]*meta{
	"C07": {
		ID: "C07", Level: "exploration",
		Parts: []part{{Name: "seq", Bin: "std", Shards: 16}},
		Rule: "every sequence of store operations (22-op alphabet: add to 3 mailboxes incl. two sharing a hash bucket/directory and one with special characters; get/seen/remove by 1st/2nd id ever issued, 'latest', unknown and empty id; purge) up to the full-tree depth, then explicit-state search keyed on the whole abstract store state up to the max depth; on mem and file; after the last op every mailbox listing, the visit and the return value are compared with the ordered-mailbox model. A case is non-trivial when its last operation succeeded on / changed a live message; distinct by construction (distinct sequences).",
		Assumptions: []string{"reference model model.Store is the specification of storage.Store", "mem ≡ file follows from both being equal to the same deterministic model on identical histories (ids abstracted to arrival ordinals)", "I/O errors are outside the model"},
	},
	"C08": {
		ID: "C08", Level: "exploration",
		Parts: []part{{Name: "seq", Bin: "std", Shards: 16}},
		Rule: "for every configuration cap∈{0,1,2,3} × maxkb∈{0,1,2} on mem and cap∈{0,1,2,3} on file: every sequence over add(mailbox∈{x,y}, size∈{300,600,1100,2100}B), remove(mailbox, oldest|newest), purge(mailbox) up to the full-tree depth, then explicit-state search (key = abstract store state + number of evictions/removals so far as a proxy for hidden accounting state) to the max depth; after the last op all listings and the visit must equal the eviction model (cap: newest kept; size: strictly oldest-first across the store, only until the limit is met) and a just-added message that the model retains must be retrievable by its id. Non-trivial = last op changed the store; distinct sequences.",
		Assumptions: []string{"size-limit eviction is complete when AddMessage returns (the mem store waits for its enforcer)", "a crash of the enforcer goroutine crashes the worker process and is attributed to the journalled case"},
	},
	"C10": {
		ID: "C10", Level: "exploration",
		Parts: []part{{Name: "seq", Bin: "std", Shards: 16}},
		Rule: "C07's 22-op alphabet plus `reopen` (drop the Store, file.New on the same path) and `retention-scan` on the file store with cap∈{0,2}: all sequences to the full-tree depth, explicit-state search beyond; reopen is the identity on the model; after every last op the concrete ids, order, metadata, seen flags, sizes, dates and bytes of every mailbox (by name and through VisitMailboxes) must equal the model's. Non-trivial = last op changed state or was a reopen; distinct sequences.",
		Assumptions: []string{"restart = constructing a new file.Store on the same directory (the store keeps no state outside it except the process-global id counter)"},
	},
}
