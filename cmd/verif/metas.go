package main

// metas describes every check: which clauses (parts) it has, which binary runs each, how many
// shards, the evidence level and the enumeration rule.
var metas = map[string]*meta{
	"C07": {
		ID: "C07", Level: "exploration",
		Parts:       []part{{Name: "seq", Bin: "std", Shards: 16}, {Name: "long", Bin: "std", Shards: 4}},
		Rule:        "long: from a mailbox pre-filled with 11 messages (ids of different widths), every pair of operations over get/remove/seen by 1st,2nd,9th,10th,11th,latest,oldest + add + purge, oracle on every step from the 11th add on. seq: every sequence of store operations (22-op alphabet: add to 3 mailboxes incl. two sharing a hash bucket/directory and one with special characters; get/seen/remove by 1st/2nd id ever issued, 'latest', unknown and empty id; purge) up to the full-tree depth, then explicit-state search keyed on the whole abstract store state up to the max depth; on mem and file; after the last op every mailbox listing, the visit and the return value are compared with the ordered-mailbox model. A case is non-trivial when its last operation succeeded on / changed a live message; distinct by construction (distinct sequences).",
		Assumptions: []string{"reference model model.Store is the specification of storage.Store", "mem ≡ file follows from both being equal to the same deterministic model on identical histories (ids abstracted to arrival ordinals)", "I/O errors are outside the model"},
	},
	"C08": {
		ID: "C08", Level: "exploration",
		Parts:       []part{{Name: "seq", Bin: "std", Shards: 16}},
		Rule:        "for every configuration cap∈{0,1,2,3} × maxkb∈{0,1,2} on mem and cap∈{0,1,2,3} on file: every sequence over add(mailbox∈{x,y}, size∈{300,600,1100,2100}B), remove(mailbox, oldest|newest), purge(mailbox) up to the full-tree depth, then explicit-state search (key = abstract store state + number of evictions/removals so far as a proxy for hidden accounting state) to the max depth; after the last op all listings and the visit must equal the eviction model (cap: newest kept; size: strictly oldest-first across the store, only until the limit is met) and a just-added message that the model retains must be retrievable by its id. Non-trivial = last op changed the store; distinct sequences.",
		Assumptions: []string{"size-limit eviction is complete when AddMessage returns (the mem store waits for its enforcer)", "a crash of the enforcer goroutine crashes the worker process and is attributed to the journalled case"},
	},
	"C10": {
		ID: "C10", Level: "exploration",
		Parts:       []part{{Name: "seq", Bin: "std", Shards: 16}},
		Rule:        "C07's 22-op alphabet plus `reopen` (drop the Store, file.New on the same path) and `retention-scan` on the file store with cap∈{0,2}: all sequences to the full-tree depth, explicit-state search beyond; reopen is the identity on the model; after every last op the concrete ids, order, metadata, seen flags, sizes, dates and bytes of every mailbox (by name and through VisitMailboxes) must equal the model's. Non-trivial = last op changed state or was a reopen; distinct sequences.",
		Assumptions: []string{"restart = constructing a new file.Store on the same directory (the store keeps no state outside it except the process-global id counter)"},
	},
	"C01": {
		ID: "C01", Level: "exploration",
		Parts:       []part{{Name: "seq", Bin: "std", Shards: 16}},
		Rule:        "every connection script: transaction 1 = MAIL + every sequence (with repetition) of ≤2 (quick) / ≤3 (thorough) RCPTs from {a@keep, A+x@keep (same mailbox), b@keep, a@drop (discard domain), b@rej (rejected domain), malformed} + one of 8 terminators (DATA with/without headers, RSET, EHLO, nested MAIL, QUIT, disconnect, DATA then disconnect before the final dot), followed by a second (and in thorough a third) transaction from a reduced set; × naming∈{local,full,domain} × store policy∈{store-default+discard list, discard-default+store list} × backend∈{mem,file}. After every transaction end ALL mailboxes (and a visit for stray ones) are compared with the model: one new message per accepted, storable recipient occurrence with the right sender/recipients/subject/size/content, everything else unchanged. Non-trivial = at least one message was delivered; distinct scripts.",
		Assumptions: []string{"recipient acceptance is read off the reply class of each RCPT", "mailbox names for the plain addresses of this pool follow model.SimpleMailbox (documented rule)", "From/To headers are generated equal to the envelope so the expected metadata is unambiguous"},
	},
	"C03": {
		ID: "C03", Level: "exploration",
		Parts:       []part{{Name: "seq", Bin: "syn", Shards: 16}, {Name: "cut", Bin: "syn", Shards: 8}},
		Rule:        "seq: every sequence of command lines over a 26-element alphabet (HELO/EHLO variants, MAIL variants incl. SIZE and <>, RCPT variants incl. rejected and malformed, DATA, DATA with argument, a 4-line message unit ending in '.', RSET, NOOP, VRFY, QUIT, AUTH PLAIN, AUTH LOGIN, STARTTLS, empty line, short garbage, a 10000-byte line, binary bytes) to the full-tree depth, then explicit-state search keyed on (envelope model state folded from the observed replies, store listing, last command) to the max depth; each session runs in a testing/synctest bubble so 'no reply', 'extra reply' and 'session never ends' are decided by exact quiescence; oracle: one well-formed reply per command line, MAIL/RCPT/DATA gating, store = deliveries to the recipients accepted since the latest accepted MAIL. cut: see clause. Non-trivial = last command was accepted (2xx) or delivered; distinct sequences.",
		Assumptions: []string{"replies the statement leaves open are not pinned: the model derives its next state from the observed reply class", "net.Pipe stands for the TCP connection; testing/synctest's notion of durably blocked is trusted", "built with go1.26.8 (testing/synctest); the baseline suite runs on go1.23.5"},
	},
	"C13": {
		ID: "C13", Level: "exploration",
		Parts:       []part{{Name: "seq", Bin: "syn", Shards: 16}},
		Rule:        "every sequence over a 59-element alphabet (USER/PASS/APOP with and without arguments, STAT, LIST/UIDL/DELE/RETR with n∈{1,2,3,0,-1,99,x,4294967297}, TOP variants, RSET, NOOP, QUIT, CAPA, garbage, empty line, plus external delivery and external deletion of message 1/2 as events) to the full-tree depth, then explicit-state search keyed on (POP3 model state, store, last command); mailbox initially holding 3/0/2 messages (one with dot-lines, one with bare LF and no final newline); mem and file; every prefix is also the 'connection dropped here' case: after each sequence the client closes without QUIT unless QUIT was the last command, and the store must equal before∖marked iff QUIT was accepted in TRANSACTION. Sessions run in synctest bubbles (exact 'no reply'/'extra reply'/'never ends'). Non-trivial = last step logged in, marked a message or mutated the store externally; distinct sequences.",
		Assumptions: []string{"replies in the AUTHORIZATION state are not pinned beyond well-formedness; the model follows the observed status", "RETR/TOP of a message marked deleted or deleted externally is not pinned (outside the statement)", "built with go1.26.8 (testing/synctest)"},
	},
	"C05": {
		ID: "C05", Level: "exploration",
		Parts: []part{{Name: "all", Bin: "std", Shards: 16}},
		Rule: "(i) predicates: full product of DefaultAccept × DefaultStore × accept/reject/store/discard lists (every subset of size ≤1 quick / ≤2 thorough of {a.test, B.Test, sub.a.test}) × reject-origin lists (subsets of {a.test, *.test, ?.test, A.TEST, a.*, *}) loaded through the real config.Process from the environment, probed on 7 domains incl. mixed case and empty, against the documented rule; (ii) live sessions for every combination of the switches and size-≤1 lists × MaxRecipients∈{1,2,3} × 3 recipient orders (two senders each): reply class of every MAIL/RCPT, the recipient limit, and the stored set after DATA; all reject-origin subsets × 8 senders; (iii) MatchWithWildcards(p,s) for every p ≤5 over {a,b,*,?} and s ≤5 over {a,b} (thorough ≤6 with '.') against a recursive reference. Non-trivial = a configuration with a non-empty list / a session that delivered / a pattern containing a wildcard; distinct by construction.",
		Assumptions: []string{"model.Policy transcribes doc/config.md", "reply class (2xx vs not) is the observable of accept/reject"},
	},
	"C06": {
		ID: "C06", Level: "exploration",
		Parts: []part{{Name: "all", Bin: "std", Shards: 16}},
		Rule: "limit L∈{1,10,100,1000,5000} (thorough: +9 more incl. 65536 and 10^6) × data size∈{0, L-3…L+3, 2L, 10L} (thorough: L±60) × declared SIZE∈{absent, truthful, L, L+1, 1, 2^31, x} × backend; each case is a live session: MAIL(+SIZE), RCPT, DATA, then a small follow-up transaction on the same session. With s = data bytes after un-stuffing with LF endings and S = the same with CRLF: S≤L ⇒ acknowledged and stored; s>L ⇒ refused (at MAIL when the declared size exceeds L, else after the final dot) and nothing stored; s≤L<S either; a declared SIZE ≤ L is never refused at MAIL; the follow-up is stored. Non-trivial = the big message was accepted; distinct cases.",
		Assumptions: []string{"sizes are a boundary ladder around each limit, not every size", "the CRLF/LF indifference band at the limit is accepted either way"},
	},
	"C14": {
		ID: "C14", Level: "exploration",
		Parts: []part{{Name: "seq", Bin: "std", Shards: 16}},
		Rule: "every sequence over a 32-op alphabet (SMTP delivery of a multipart message with attachment; REST list/get/source/PATCH-seen/DELETE/purge; web UI message/html/source/attach; every method of the bundled Go client incl. the header/message convenience methods; refs ∈ {1st id, 2nd id, latest, unknown}) to the full-tree depth, then explicit-state search on the store state; × mailbox name ∈ {plain, address form Plain+x@d.test, names containing ? # % & ' /} × backend × base path ∈ {'', /pre}; requests go through the real web.Router in-process, the Go client through a RoundTripper onto the same router. After every call: status (404 for every missing message, never a handler panic), body vs the model, and the store itself vs the effect the call should have had. Non-trivial = last op delivered or changed the store; distinct sequences.",
		Assumptions: []string{"HTTP clients percent-encode path segments (url.PathEscape); the Go client encodes as it does", "handler panics are caught at Router.ServeHTTP (net/http would drop the connection)"},
	},
	"C02": {
		ID: "C02", Level: "exploration",
		Parts: []part{{Name: "all", Bin: "syn", Shards: 16}},
		Rule: "message bodies = optional minimal header block + every sequence of ≤4 (quick) / ≤6 (thorough) tokens over {a, ., .., .a, CRLF, LF, CR, NUL, 0xFF 0xFE, space, LONG = one 70000-byte line (≤1 quick / ≤2 thorough per body)}, plus a size ladder {1, 4095, 4096, 4097, 65535, 65536, 65537, 1 MiB, 4 MiB} with and without final newline; mem and file. Each body is sent through a real SMTP session (dot-stuffing after CRLF and bare LF) and read back through Store.Source(), REST /source, web UI /source and POP3 RETR; each must be Return-Path + Received + the transmitted bytes modulo line-ending normalisation; sizes reported by Size(), REST list, POP3 STAT/LIST/RETR must equal the stored length. Non-trivial = the server stored the message; distinct bodies.",
		Assumptions: []string{"a robust client dot-stuffs after bare LF as well (Go's DotWriter does); a body containing LF.LF sent by a CRLF-only encoder is SMTP smuggling and outside the statement", "runs of CR directly before LF are part of the line ending for comparison", "bodies the server refuses (451, undecodable header block) are counted, not alarmed on: the statement is about stored messages"},
	},
	"C04": {
		ID: "C04", Level: "exploration",
		Parts: []part{{Name: "rel", Bin: "std", Shards: 16}, {Name: "agree", Bin: "std", Shards: 8}},
		Primary: "rel",
		Rule: "rel: every string of length ≤5 (quick) / ≤7 (thorough) over the 13 symbols {a B 1 . + - @ \" \\ space [ ] :} plus 280 structured addresses (quoted/escaped locals, source routes, IPv4/IPv6 literals, mixed case, '+' and '.' placements), in each of local/full/domain naming; for every address NewRecipient accepts: name non-empty; ExtractMailbox(name)==name; read-time name == receive-time name; every accepted case variant and every accepted ±'+extension' variant names the same mailbox. agree: each structured address is delivered over SMTP and then asked for by the original address and by the name through REST list, web UI message and POP3 USER; each must show the message. Non-trivial = the address is accepted by RCPT; distinct strings.",
		Assumptions: []string{"relations only (no expected names): fixed point, case, +extension, non-empty", "an address RCPT refuses is outside the property"},
	},
	"C18": {
		ID: "C18", Level: "exploration",
		Parts: []part{{Name: "all", Bin: "std", Shards: 16}},
		Rule: "html: every sequence of ≤4 (quick) / ≤5 (thorough) fragments over 30 tokens (script/style/iframe/object/form/svg/math/textarea/title/noscript openers, mixed-case and unterminated tags, comment delimiters, href=\"…, javascript: with and without an entity-encoded tab, onclick injection through quote breaking, stray quotes and angle brackets, style attribute openers, entities, NUL, a forbidden CSS declaration); css: every sequence of ≤5 / ≤6 tokens over {color, position, w\\69 dth, :, ;, red, url(javascript:x), /*, */, \", ', @import, {, }, \\, !important, space} placed (HTML-escaped) in a style attribute; text: every sequence of ≤5 / ≤6 tokens over {<, >, &, \", http://a.b/c, www.a.bc/, (, ), CR, LF, javascript:x, a, ', <script>}. Output of sanitize.HTML is re-parsed with x/net/html: no forbidden element, no on* attribute, no javascript: URL, and every style value parsed by an independent CSS-Syntax-3 declaration-list parser yields only allow-listed properties; TextToHTML output re-parsed must contain only <a href target> and <br> and its text content must equal the input. Every case is distinct and non-trivial (each input is run through the sanitiser).",
		Assumptions: []string{"x/net/html's parser stands for the browser's HTML parser", "the CSS oracle implements CSS Syntax Level 3 declaration-list parsing (comments, strings, escapes, blocks, url())", "a javascript: href inside an anchor that TextToHTML itself generates is counted, not alarmed on (the statement only restricts the text rendering to escaped text + server-generated anchors)"},
	},
	"C17": {
		ID: "C17", Level: "exploration",
		Parts: []part{{Name: "seq", Bin: "std", Shards: 16}},
		Rule: "seq: Lua scripts generated from the handler grammar — before.mail_from_accepted and before.rcpt_to_accepted ∈ {absent, allow(), defer(), deny(), deny(451,\"t\"), return nil, return 7, return \"x\", return {}, error()}, before.message_stored ∈ 16 variants (absent, nil, false, rewrite of mailboxes/subject/from/to, fresh inbound_message, garbage, error, partial rewrite through shared address objects followed by error/nil), after.* ∈ {absent, ok, error}: quick = every single handler and every pair, thorough = full product; plus a Go listener registered before/after the Lua one answering allow/deny (first answer wins); each script × 2 senders (accepted/rejected origin) × 5 recipient sets (accepted, rejected, discarded, mixed) run as a live SMTP session. Oracle: the hook-decision model — deny ⇒ exactly that code and text, allow ⇒ accepted against policy, no answer/garbage/error ⇒ policy, replacement ⇒ stored in exactly the returned mailboxes with the returned from/to/subject, no answer ⇒ exactly the policy-only delivery (catches partial rewrites leaking through shared pointers). Non-trivial = a message was stored; distinct (script, dialogue) pairs.",
		Assumptions: []string{"an explicit smtp.defer() from the first listener followed by a second listener is not pinned by the statement", "other Lua programs than the grammar's are not covered"},
	},
	"C11": {
		ID: "C11", Level: "fault_enumeration",
		Parts: []part{{Name: "crash", Bin: "std", Shards: 16}},
		Rule: "every history of ≤3 (quick) / ≤4 (thorough) operations over {add m1, add m2 (same hash directory), mark-seen, remove oldest, remove newest/last remaining, purge} × cap∈{0,1,2} is executed on the real file store under strace; the syscall log (openat/write/close/mkdirat/unlinkat/renameat…, op boundaries marked by readlink calls) is parsed into file-system effects, and for the LAST operation of each history (every prefix of a history is itself a history) one directory image is materialised per crash state: before the first effect, after every effect, after every byte prefix of every write to an index file (raw bodies ≤256 B byte-exact, larger ones at 0/1/mid/len-1 and 4 KiB boundaries), and after every subset of a run of sibling unlinks of one RemoveAll walk. Each image is recovered with a fresh real file.Store: visit and listings succeed, untouched mailboxes identical, the touched mailbox equals the state before or after the operation (or a cap-eviction prefix), every listed message readable, and the mailbox accepts new mail. Non-trivial = a history whose last operation had file-system effects; distinct histories.",
		Assumptions: []string{"process death: the persistent state is the effect of a prefix of the issued syscalls, the one in flight possibly partial (no power-loss reordering; the store never fsyncs)", "strace reports the store's syscalls faithfully; unknown mutating syscalls make the check fail loudly", "readdir order inside RemoveAll is arbitrary: all subsets of a sibling-unlink run are crash states"},
	},
	"C09": {
		ID: "C09", Level: "model_checking",
		Parts: []part{{Name: "sched", Bin: "sched", Shards: 16}, {Name: "race", Bin: "race", Shards: 2}},
		Primary: "sched",
		Rule: "stateless depth-first exploration of ALL schedules (iterative preemption bounding; multi-ready selects are extra choice points) of 11 scenarios of 2–3 client goroutines × 1–2 operations on the REAL mem/file stores plus the stores' own background goroutines (size enforcer), under a controlled scheduler built on testing/synctest with every sync/channel/go site of inbucket instrumented from the working tree at check time: mem+maxkb add∥remove∥add, add∥purge, cap+maxkb add∥add∥add, add∥list/get∥seen/remove, add∥add∥visitor-that-removes; file add∥remove∥list, same-bucket add∥add∥purge, cap add∥add∥list, visit∥remove-last-message, add∥get-latest∥remove. Oracle per schedule: every client finishes (else deadlock), no goroutine panics, the call/return history (scheduler-step intervals) plus a final listing is linearizable w.r.t. the store model (porcupine), no duplicate ids, byte limit respected. Every schedule is distinct and non-trivial.",
		Assumptions: []string{"code between two scheduling points (lock acquire, channel operation, select, go, WaitGroup.Wait) is atomic: sound for data-race-free code; races are looked for separately by the free-running -race pass (sampling, reported as race_pass)", "testing/synctest's durably-blocked notion; two small runtime patches (deterministic select choice, map iteration start) applied through -overlay", "size-limit eviction is not atomic with the add that triggers it; in linearizability scenarios the limit is large enough that nothing is evicted"},
	},
}
