// Command verif is the runner of the inbucket model-checking harness.
//
//	verif setup
//	verif check <Cnn> [--tier quick|thorough]
//	verif replay <Cnn> <path>
//
// It rebuilds the check binaries from /repo's current working tree, shards the exploration over
// worker processes, restarts a shard after a crash (a crash is a violation), merges the results,
// applies known_findings.jsonl, confirms violations by replay, writes evidence/<id>.json and
// prints VIOLATION / KNOWN-FINDING lines.
package main

import (
	"bufio"
	"bytes"
	"crypto/sha1"
	"encoding/hex"
	"encoding/json"
	"fmt"
	"os"
	"os/exec"
	"path/filepath"
	"sort"
	"strconv"
	"strings"
	"sync"
	"syscall"
	"time"

	"verif/fw"
)

// root is /verif unless VERIF_ROOT points at a snapshot of it (background runs).
var root = func() string {
	if r := os.Getenv("VERIF_ROOT"); r != "" {
		return r
	}
	return "/verif"
}()

// repo is /repo unless VERIF_REPO points at a snapshot of it (background runs with --with-repo).
var repo = func() string {
	if r := os.Getenv("VERIF_REPO"); r != "" {
		return r
	}
	return "/repo"
}()

type part struct {
	Name   string
	Bin    string // std | syn | sched
	Shards int
}

type meta struct {
	ID          string
	Level       string
	Parts       []part
	Primary     string // part whose counts fill the top-level coverage keys ("" = sum of all)
	Rule        string
	Assumptions []string
}

func goEnv() []string {
	env := os.Environ()
	env = append(env, "GOFLAGS=-mod=mod", "GOPROXY=off", "GOSUMDB=off", "GOTOOLCHAIN=local")
	return env
}

func run(dir string, env []string, name string, args ...string) (string, error) {
	cmd := exec.Command(name, args...)
	cmd.Dir = dir
	cmd.Env = env
	var buf bytes.Buffer
	cmd.Stdout = &buf
	cmd.Stderr = &buf
	err := cmd.Run()
	return buf.String(), err
}

var buildMu sync.Mutex

// build (re)builds one of the check binaries from the current /repo tree.
func build(bin string) error {
	buildMu.Lock()
	defer buildMu.Unlock()
	out := filepath.Join(root, "bin", "checks-"+bin)
	var o string
	var err error
	switch bin {
	case "std":
		o, err = run(root, goEnv(), "go", "test", "-c", "-vet=off", "-tags", "verif", "-o", out, "./checks")
	case "syn":
		o, err = run(root, goEnv(), "go1.26.8", "test", "-c", "-vet=off", "-tags", "verif", "-o", out, "./checks")
	case "sched":
		ov := filepath.Join(root, ".work", "overlay")
		_ = os.RemoveAll(ov)
		if o, err = run(root, goEnv(), "go", "run", "./engine/instr", "-root", repo, "-out", ov, "-engine", filepath.Join(root, "engine"), "-goroot", "/opt/veriftools/go1.26.8"); err != nil {
			return fmt.Errorf("instrumenter failed: %v\n%s", err, o)
		}
		o, err = run(root, goEnv(), "go1.26.8", "test", "-c", "-vet=off", "-tags", "verif,sched", "-overlay", filepath.Join(ov, "overlay.json"), "-o", out, "./checks")
	case "race":
		o, err = run(root, goEnv(), "go", "test", "-c", "-race", "-vet=off", "-tags", "verif,racepass", "-o", out, "./checks")
	default:
		return fmt.Errorf("unknown binary %q", bin)
	}
	if err != nil {
		return fmt.Errorf("build of %s failed: %v\n%s", bin, err, o)
	}
	return nil
}

type workerOut struct {
	res     *fw.Result
	crashes []*fw.Violation
	broken  string // infrastructure failure (not a verdict)
}

func tail(s string, n int) string {
	if len(s) > n {
		return s[len(s)-n:]
	}
	return s
}

// crashSite derives a stable key from a Go crash dump on stderr.
func crashSite(stderr string) (msg, site string) {
	sc := bufio.NewScanner(strings.NewReader(stderr))
	sc.Buffer(make([]byte, 1<<20), 1<<24)
	var lines []string
	for sc.Scan() {
		lines = append(lines, sc.Text())
	}
	start := -1
	for i, l := range lines {
		if strings.HasPrefix(l, "panic: ") || strings.HasPrefix(l, "fatal error: ") {
			start = i
			msg = l
			break
		}
	}
	if start < 0 {
		return "no panic message", "unknown"
	}
	site = fw.PanicSite(strings.Join(lines[start+1:], "\n"))
	// strip addresses from the message
	if i := strings.Index(msg, " [recovered]"); i > 0 {
		msg = msg[:i]
	}
	if len(msg) > 160 {
		msg = msg[:160]
	}
	return msg, site
}

func runShard(m *meta, p part, shard int, tier string, seed int64, budget int, replayPath string) *workerOut {
	wd := filepath.Join(root, ".work", m.ID)
	_ = os.MkdirAll(wd, 0o755)
	base := filepath.Join(wd, fmt.Sprintf("%s-%d", p.Name, shard))
	if replayPath != "" {
		base += "-replay" + strconv.Itoa(os.Getpid())
	}
	outFile, jFile := base+".json", base+".journal"
	wo := &workerOut{}
	var skipCases []json.RawMessage
	skipFile := base + ".skip"
	var acc *fw.Result
	const maxAttempts = 12
	for attempt := 0; attempt < maxAttempts; attempt++ {
		sb, _ := json.Marshal(skipCases)
		_ = os.WriteFile(skipFile, sb, 0o644)
		_ = os.Remove(outFile)
		_ = os.Remove(jFile)
		cmd := exec.Command(filepath.Join(root, "bin", "checks-"+p.Bin), "-test.run", "^TestWorker$", "-test.timeout", "0")
		cmd.Dir = wd
		cmd.Env = append(os.Environ(),
			"VERIF_CHECK="+m.ID, "VERIF_PART="+p.Name, "VERIF_TIER="+tier,
			"VERIF_SHARD="+strconv.Itoa(shard), "VERIF_NSHARDS="+strconv.Itoa(p.Shards),
			"VERIF_SEED="+strconv.FormatInt(seed, 10), "VERIF_SKIPFILE="+skipFile,
			"VERIF_OUT="+outFile, "VERIF_JOURNAL="+jFile, "VERIF_BUDGET_S="+strconv.Itoa(budget),
			"VERIF_ROOT="+root, "VERIF_REPO="+repo,
			"GOMAXPROCS="+gomaxprocs(p),
		)
		if replayPath != "" {
			cmd.Env = append(cmd.Env, "VERIF_REPLAY="+replayPath)
		}
		if p.Bin == "race" {
			rl := base + ".racelog"
			old, _ := filepath.Glob(rl + "*")
			for _, f := range old {
				_ = os.Remove(f)
			}
			cmd.Env = append(cmd.Env, "GORACE=halt_on_error=0 exitcode=0 log_path="+rl, "VERIF_RACELOG="+rl)
		}
		var stderr, stdout bytes.Buffer
		cmd.Stdout = &stdout
		cmd.Stderr = &stderr
		// Watchdog: a worker ends by itself when its budget is used up; one that is still there
		// long after that hangs (the system under test deadlocked outside a bubble).  SIGQUIT makes
		// the Go runtime dump all goroutines before the process dies.
		hung := false
		err := cmd.Start()
		if err == nil {
			done := make(chan error, 1)
			go func() { done <- cmd.Wait() }()
			select {
			case err = <-done:
			case <-time.After(time.Duration(budget*2+120) * time.Second):
				hung = true
				_ = cmd.Process.Signal(syscall.SIGQUIT)
				select {
				case err = <-done:
				case <-time.After(15 * time.Second):
					_ = cmd.Process.Kill()
					err = <-done
				}
			}
		}
		_ = os.WriteFile(base+fmt.Sprintf(".log%d", attempt), append(stdout.Bytes(), stderr.Bytes()...), 0o644)
		if hung {
			var j struct {
				N    int64           `json:"n"`
				Case json.RawMessage `json:"case"`
			}
			jb, _ := os.ReadFile(jFile)
			if i := bytes.IndexByte(jb, '\n'); i >= 0 {
				jb = jb[:i]
			}
			if json.Unmarshal(jb, &j) != nil || j.N == 0 {
				wo.broken = "worker hung before journalling a case: " + tail(stdout.String()+stderr.String(), 1500)
				break
			}
			wo.crashes = append(wo.crashes, &fw.Violation{
				Key:    "hang|" + p.Name,
				Detail: fmt.Sprintf("the worker was still running %d s after it was started with a budget of %d s: the case below never returns (deadlock outside a bubble); goroutine dump:\n%s", budget*2+120, budget, hangSummary(stdout.String()+stderr.String())),
				Case:   j.Case, Count: 1,
			})
			var r fw.Result
			if b, rerr := os.ReadFile(outFile); rerr == nil && json.Unmarshal(b, &r) == nil {
				r.Exhaustive = false
				acc = mergeResults(nil, &r)
			}
			if replayPath != "" {
				break
			}
			skipCases = append(skipCases, j.Case)
			if attempt >= 1 || p.Bin == "race" {
				// a second hang (or the sampling pass): give up on this shard rather than wait again and again
				if acc == nil {
					acc = mergeResults(nil, &fw.Result{})
				}
				acc.Exhaustive = false
				acc.Notes = append(acc.Notes, "gave up restarting the shard after repeated hangs")
				break
			}
			continue
		}
		var r fw.Result
		b, rerr := os.ReadFile(outFile)
		haveRes := rerr == nil && json.Unmarshal(b, &r) == nil
		if err != nil && haveRes && p.Bin == "race" && strings.Contains(stdout.String()+stderr.String(), "race detected during execution of test") && !strings.Contains(stdout.String()+stderr.String(), "panic: ") {
			err = nil // the race reports were already converted into violations by the worker
		}
		if err == nil && haveRes {
			if attempt > 0 {
				r.Exhaustive = false // cases that crash the process were skipped
			}
			acc = mergeResults(nil, &r)
			break
		}
		if err == nil && !haveRes {
			wo.broken = "worker exited 0 without a result: " + tail(stdout.String()+stderr.String(), 600)
			break
		}
		// Non-zero exit: test failure (t.Fatalf = infrastructure) or crash (violation).
		all := stdout.String() + stderr.String()
		if !strings.Contains(all, "panic: ") && !strings.Contains(all, "fatal error: ") {
			wo.broken = "worker failed: " + tail(all, 1500)
			break
		}
		if strings.Contains(all, "VERIF-INFRA") {
			wo.broken = "worker infrastructure failure: " + tail(all, 1500)
			break
		}
		// crash: attribute to the journalled case
		var j struct {
			N    int64           `json:"n"`
			Case json.RawMessage `json:"case"`
		}
		jb, _ := os.ReadFile(jFile)
		if i := bytes.IndexByte(jb, '\n'); i >= 0 {
			jb = jb[:i]
		}
		if json.Unmarshal(jb, &j) != nil || j.N == 0 {
			wo.broken = "worker crashed before journalling a case: " + tail(all, 1500)
			break
		}
		msg, site := crashSite(all)
		wo.crashes = append(wo.crashes, &fw.Violation{
			Key:    "crash|" + site + "|" + msg,
			Detail: "process crashed (unrecovered panic in an inbucket goroutine)\n" + tail(all, 1800),
			Case:   j.Case, Count: 1,
		})
		if haveRes {
			// keep the partial result of the latest crashed attempt in case we give up
			r.Exhaustive = false
			acc = mergeResults(nil, &r)
		}
		if replayPath != "" {
			break
		}
		skipCases = append(skipCases, j.Case)
		if attempt == maxAttempts-1 {
			if acc == nil {
				acc = mergeResults(nil, &fw.Result{})
			}
			acc.Exhaustive = false
			acc.Notes = append(acc.Notes, "gave up restarting the shard after repeated crashes")
		}
	}
	wo.res = acc
	return wo
}

// hangSummary keeps the goroutines of a SIGQUIT dump that are blocked on a lock or channel inside
// inbucket code.
func hangSummary(all string) string {
	i := strings.Index(all, "SIGQUIT")
	if i < 0 {
		return tail(all, 1500)
	}
	var keep []string
	for _, g := range strings.Split(all[i:], "\n\n") {
		if strings.Contains(g, "inbucket/v3/pkg") && (strings.Contains(g, "sync.") || strings.Contains(g, "chan ") || strings.Contains(g, "select")) {
			lines := strings.Split(g, "\n")
			if len(lines) > 9 {
				lines = lines[:9]
			}
			keep = append(keep, strings.Join(lines, "\n"))
		}
		if len(keep) >= 6 {
			break
		}
	}
	if len(keep) == 0 {
		return tail(all, 1500)
	}
	return strings.Join(keep, "\n\n")
}

func gomaxprocs(p part) string {
	if p.Bin == "sched" {
		return "1"
	}
	if p.Bin == "syn" {
		return "2"
	}
	if p.Bin == "race" {
		return "8"
	}
	if p.Shards >= 8 {
		return "2"
	}
	return "16"
}

func mergeResults(a, b *fw.Result) *fw.Result {
	if a == nil {
		c := *b
		if c.Counters == nil {
			c.Counters = map[string]int64{}
		}
		if c.Maxima == nil {
			c.Maxima = map[string]int64{}
		}
		if c.Minima == nil {
			c.Minima = map[string]int64{}
		}
		if c.Sets == nil {
			c.Sets = map[string][]string{}
		}
		return &c
	}
	a.Evaluations += b.Evaluations
	a.Distinct += b.Distinct
	for _, s := range b.Samples {
		if len(a.Samples) < 6 {
			a.Samples = append(a.Samples, s)
		}
	}
	for _, v := range b.Violations {
		found := false
		for _, w := range a.Violations {
			if w.Key == v.Key {
				w.Count += v.Count
				if len(v.Case) < len(w.Case) {
					w.Case, w.Detail = v.Case, v.Detail
				}
				found = true
			}
		}
		if !found {
			a.Violations = append(a.Violations, v)
		}
	}
	a.Exhaustive = a.Exhaustive && b.Exhaustive
	for k, v := range b.Counters {
		a.Counters[k] += v
	}
	for k, v := range b.Maxima {
		if v > a.Maxima[k] {
			a.Maxima[k] = v
		}
	}
	for k, v := range b.Minima {
		if w, ok := a.Minima[k]; !ok || v < w {
			a.Minima[k] = v
		}
	}
	for k, l := range b.Sets {
		set := map[string]bool{}
		for _, x := range a.Sets[k] {
			set[x] = true
		}
		for _, x := range l {
			set[x] = true
		}
		var u []string
		for x := range set {
			u = append(u, x)
		}
		sort.Strings(u)
		a.Sets[k] = u
	}
	a.Notes = append(a.Notes, b.Notes...)
	if b.WallS > a.WallS {
		a.WallS = b.WallS
	}
	return a
}

type finding struct {
	Status   string `json:"status"` // open | fixed
	Property string `json:"property"`
	Key      string `json:"key"`
	Commit   string `json:"commit,omitempty"`
	What     string `json:"what"`
}

func loadFindings() []finding {
	// known_findings.txt, one entry per line:
	//   fixed: property=<id> <commit> <what failed>          (suppresses nothing)
	//   open: {"property":"Cnn","key":"<violation key>","what":"<what fails>"}
	var out []finding
	f, err := os.Open(filepath.Join(root, "known_findings.txt"))
	if err != nil {
		return nil
	}
	defer f.Close()
	sc := bufio.NewScanner(f)
	sc.Buffer(make([]byte, 1<<20), 1<<22)
	for sc.Scan() {
		l := strings.TrimSpace(sc.Text())
		if !strings.HasPrefix(l, "open:") {
			continue
		}
		var fd finding
		if json.Unmarshal([]byte(strings.TrimSpace(strings.TrimPrefix(l, "open:"))), &fd) == nil && fd.Key != "" {
			fd.Status = "open"
			out = append(out, fd)
		}
	}
	return out
}

func writeReplay(id, partName string, v *fw.Violation) string {
	h := sha1.Sum([]byte(partName + "\x00" + v.Key + "\x00" + string(v.Case)))
	dir := filepath.Join(root, "replays", id)
	_ = os.MkdirAll(dir, 0o755)
	p := filepath.Join(dir, hex.EncodeToString(h[:8])+".json")
	b, _ := json.MarshalIndent(map[string]any{
		"property": id, "part": partName, "key": v.Key, "detail": v.Detail, "case": v.Case,
	}, "", " ")
	_ = os.WriteFile(p, b, 0o644)
	return p
}

// confirm replays a violation and reports whether the same key shows up again.
func confirm(m *meta, p part, path, key string) bool {
	wo := runShard(m, part{Name: p.Name, Bin: p.Bin, Shards: 1}, 0, "quick", 0, 600, path)
	for _, c := range wo.crashes {
		if c.Key == key {
			return true
		}
	}
	if wo.res != nil {
		for _, v := range wo.res.Violations {
			if v.Key == key {
				return true
			}
		}
	}
	return false
}

func check(id, tier string) int {
	m := metas[id]
	if m == nil {
		fmt.Fprintf(os.Stderr, "unknown check %s\n", id)
		return 2
	}
	start := time.Now()
	seed, _ := strconv.ParseInt(os.Getenv("VERIF_SEED"), 10, 64)
	evPath := filepath.Join(root, "evidence", id+".json")
	if only := os.Getenv("VERIF_ONLY_PART"); only != "" {
		// development aid: run one clause only; its evidence goes to .work, never to evidence/
		mm := *m
		mm.Parts = nil
		for _, p := range m.Parts {
			if p.Name == only {
				mm.Parts = append(mm.Parts, p)
			}
		}
		m = &mm
		evPath = filepath.Join(root, ".work", id+"."+only+".evidence.json")
	}
	if os.Getenv("VERIF_ONLY_SCENARIO") != "" {
		// development aid (one scheduler scenario only): never overwrite the real evidence
		evPath = filepath.Join(root, ".work", id+".scenario.evidence.json")
	}
	_ = os.MkdirAll(filepath.Dir(evPath), 0o755)
	_ = os.MkdirAll(filepath.Join(root, "bin"), 0o755)

	// 1. build
	bins := map[string]bool{}
	for _, p := range m.Parts {
		bins[p.Bin] = true
	}
	for b := range bins {
		if err := build(b); err != nil {
			fmt.Fprintf(os.Stderr, "BROKEN: %v\n", err)
			return 2
		}
	}
	// 2. run all parts; at most 16 workers at a time
	// quick: the heaviest checks (C09, C19, C13) need 80-100 s on 16 idle cores; the budget only
	// matters on a loaded machine, where it turns "exhaustive" into false instead of running on
	budget := 150
	if m.ID == "C19" {
		budget = 240 // twenty scenarios, about 110 s on 16 idle cores
	}
	if tier == "thorough" {
		budget = 1500
	}
	if s := os.Getenv("VERIF_BUDGET_S"); s != "" {
		budget, _ = strconv.Atoi(s)
	}
	sem := make(chan struct{}, 16)
	type po struct {
		p    part
		outs []*workerOut
	}
	pos := make([]*po, len(m.Parts))
	var wg sync.WaitGroup
	for i, p := range m.Parts {
		pos[i] = &po{p: p, outs: make([]*workerOut, p.Shards)}
		for s := 0; s < p.Shards; s++ {
			wg.Add(1)
			go func(i, s int, p part) {
				defer wg.Done()
				sem <- struct{}{}
				defer func() { <-sem }()
				pos[i].outs[s] = runShard(m, p, s, tier, seed, budget, "")
			}(i, s, p)
		}
	}
	wg.Wait()

	// 3. merge
	findings := loadFindings()
	clauses := map[string]any{}
	var racePass map[string]any
	var total *fw.Result
	var primary *fw.Result
	type vrec struct {
		p part
		v *fw.Violation
	}
	var vios []vrec
	for _, x := range pos {
		var acc *fw.Result
		for _, wo := range x.outs {
			if wo.broken != "" {
				fmt.Fprintf(os.Stderr, "BROKEN: %s part %s: %s\n", id, x.p.Name, wo.broken)
				return 2
			}
			if wo.res != nil {
				acc = mergeResults(acc, wo.res)
			}
			for _, c := range wo.crashes {
				if acc == nil {
					acc = mergeResults(nil, &fw.Result{Exhaustive: false})
				}
				acc = mergeResults(acc, &fw.Result{Violations: []*fw.Violation{c}, Exhaustive: false})
			}
		}
		if acc == nil {
			fmt.Fprintf(os.Stderr, "BROKEN: %s part %s produced no result\n", id, x.p.Name)
			return 2
		}
		for _, v := range acc.Violations {
			vios = append(vios, vrec{x.p, v})
		}
		cl := map[string]any{
			"evaluations": acc.Evaluations, "distinct_nontrivial": acc.Distinct, "exhaustive": acc.Exhaustive,
			"shards": x.p.Shards, "binary": x.p.Bin,
		}
		for k, v := range acc.Counters {
			cl[k] = v
		}
		for k, v := range acc.Maxima {
			cl[k] = v
		}
		for k, v := range acc.Minima {
			cl[k] = v
		}
		for k, v := range acc.Sets {
			cl[k+"_count"] = len(v)
			if len(v) <= 12 {
				cl[k] = v
			} else {
				cl[k] = v[:12]
			}
		}
		if len(acc.Notes) > 0 {
			n := acc.Notes
			if len(n) > 8 {
				n = n[:8]
			}
			cl["notes"] = n
		}
		clauses[x.p.Name] = cl
		if x.p.Name == m.Primary {
			primary = acc
		}
		if x.p.Bin == "race" {
			// the free-running -race pass is sampling: reported on its own, never part of the
			// exhaustive counts
			racePass = map[string]any{"iterations": acc.Counters["race_pass_iterations"], "race_reports": len(acc.Violations), "mode": "free-running, uninstrumented, -race, sampling"}
			continue
		}
		if total == nil {
			c := *acc
			c.Counters = map[string]int64{}
			c.Maxima = map[string]int64{}
			c.Sets = map[string][]string{}
			c.Samples = append([]any{}, acc.Samples...)
			total = &c
			for k, v := range acc.Counters {
				total.Counters[k] = v
			}
		} else {
			total.Evaluations += acc.Evaluations
			total.Distinct += acc.Distinct
			total.Exhaustive = total.Exhaustive && acc.Exhaustive
			for _, s := range acc.Samples {
				if len(total.Samples) < 8 {
					total.Samples = append(total.Samples, s)
				}
			}
			for k, v := range acc.Counters {
				total.Counters[k] += v
			}
		}
	}

	// 4. classify violations
	exit := 0
	nvio := 0
	var lines []string
	var knownHit, flaky []string
	sort.Slice(vios, func(i, j int) bool { return vios[i].v.Key < vios[j].v.Key })
	confirmed := 0
	for _, vr := range vios {
		v := vr.v
		var kf *finding
		for i := range findings {
			f := &findings[i]
			if f.Status == "open" && f.Property == id && f.Key == v.Key {
				kf = f
			}
		}
		path := writeReplay(id, vr.p.Name, v)
		if kf != nil {
			knownHit = append(knownHit, v.Key)
			lines = append(lines, fmt.Sprintf("KNOWN-FINDING: property=%s %s [key=%s replay=%s]", id, kf.What, v.Key, path))
			continue
		}
		// confirm by replay (first 6 keys only, twice each): the same case must fail the same way
		ok := true
		if vr.p.Bin != "race" && confirmed < 6 && os.Getenv("VERIF_NOCONFIRM") == "" {
			confirmed++
			ok = confirm(m, vr.p, path, v.Key) && confirm(m, vr.p, path, v.Key)
		}
		if !ok {
			flaky = append(flaky, v.Key)
			lines = append(lines, fmt.Sprintf("UNCONFIRMED (did not reproduce on replay, not reported): property=%s key=%s replay=%s", id, v.Key, path))
			continue
		}
		nvio++
		exit = 1
		lines = append(lines, fmt.Sprintf("VIOLATION property=%s replay=%s", id, path))
		lines = append(lines, fmt.Sprintf("  key: %s (x%d)\n  %s", v.Key, v.Count, strings.ReplaceAll(tail2(v.Detail, 700), "\n", "\n  ")))
	}

	// 5. evidence
	cov := map[string]any{}
	src := total
	if primary != nil {
		src = primary
	}
	cov["evaluations"] = total.Evaluations
	cov["distinct_nontrivial"] = total.Distinct
	cov["rule"] = m.Rule
	samples := total.Samples
	if primary != nil && len(primary.Samples) > 0 {
		samples = primary.Samples
	}
	if len(samples) == 0 {
		samples = []any{"(no sample recorded)"}
	}
	cov["samples"] = samples
	cov["exhaustive"] = total.Exhaustive
	cov["clauses"] = clauses
	if m.Level == "model_checking" {
		cov["states"] = src.Counters["states"]
		cov["transitions"] = src.Counters["transitions"]
		cov["traces_validated_against_impl"] = src.Counters["schedules"]
		cov["schedules"] = src.Counters["schedules"]
	}
	if racePass != nil {
		cov["race_pass"] = racePass
	}
	if len(knownHit) > 0 {
		cov["known_findings_reproduced"] = knownHit
	}
	if len(flaky) > 0 {
		cov["unconfirmed_violations"] = flaky
	}
	ev := map[string]any{
		"property_id": id, "tier": tier, "seed": seed, "level": m.Level,
		"coverage": cov, "assumptions": m.Assumptions,
		"wall_s": time.Since(start).Seconds(), "violations": nvio,
	}
	b, _ := json.MarshalIndent(ev, "", " ")
	if err := os.WriteFile(evPath, append(b, '\n'), 0o644); err != nil {
		fmt.Fprintf(os.Stderr, "BROKEN: cannot write evidence: %v\n", err)
		return 2
	}
	for _, l := range lines {
		fmt.Println(l)
	}
	fmt.Printf("%s %s: evaluations=%d distinct_nontrivial=%d exhaustive=%v violations=%d known=%d wall=%.1fs\n",
		id, tier, total.Evaluations, total.Distinct, total.Exhaustive, nvio, len(knownHit), time.Since(start).Seconds())
	return exit
}

func tail2(s string, n int) string {
	if len(s) > n {
		return s[:n] + "…"
	}
	return s
}

func replay(id, path string) int {
	m := metas[id]
	if m == nil {
		fmt.Fprintf(os.Stderr, "unknown check %s\n", id)
		return 2
	}
	raw, err := os.ReadFile(path)
	if err != nil {
		fmt.Fprintln(os.Stderr, err)
		return 2
	}
	var w struct {
		Part string `json:"part"`
		Key  string `json:"key"`
	}
	_ = json.Unmarshal(raw, &w)
	var p *part
	for i := range m.Parts {
		if m.Parts[i].Name == w.Part || (w.Part == "" && i == 0) {
			p = &m.Parts[i]
		}
	}
	if p == nil {
		fmt.Fprintf(os.Stderr, "replay file names unknown part %q\n", w.Part)
		return 2
	}
	if err := build(p.Bin); err != nil {
		fmt.Fprintf(os.Stderr, "BROKEN: %v\n", err)
		return 2
	}
	wo := runShard(m, part{Name: p.Name, Bin: p.Bin, Shards: 1}, 0, "quick", 0, 3600, path)
	if wo.broken != "" {
		fmt.Fprintf(os.Stderr, "BROKEN: %s\n", wo.broken)
		return 2
	}
	n := 0
	if wo.res != nil {
		for _, v := range wo.res.Violations {
			fmt.Printf("VIOLATION property=%s replay=%s\n  key: %s\n  %s\n", id, path, v.Key, v.Detail)
			n++
		}
	}
	for _, v := range wo.crashes {
		fmt.Printf("VIOLATION property=%s replay=%s\n  key: %s\n  %s\n", id, path, v.Key, v.Detail)
		n++
	}
	if n > 0 {
		return 1
	}
	fmt.Printf("replay of %s: no violation\n", path)
	return 0
}

func main() {
	if len(os.Args) < 2 {
		fmt.Fprintln(os.Stderr, "usage: verif setup | check <id> [--tier t] | replay <id> <path>")
		os.Exit(2)
	}
	switch os.Args[1] {
	case "setup":
		os.Exit(setup())
	case "check":
		if len(os.Args) < 3 {
			os.Exit(2)
		}
		tier := "quick"
		if t := os.Getenv("VERIF_TIER"); t == "thorough" || t == "quick" {
			tier = t
		}
		for i := 3; i < len(os.Args); i++ {
			if os.Args[i] == "--tier" && i+1 < len(os.Args) {
				tier = os.Args[i+1]
			}
		}
		os.Exit(check(os.Args[2], tier))
	case "replay":
		if len(os.Args) < 4 {
			os.Exit(2)
		}
		os.Exit(replay(os.Args[2], os.Args[3]))
	case "list":
		var ids []string
		for id := range metas {
			ids = append(ids, id)
		}
		sort.Strings(ids)
		for _, id := range ids {
			fmt.Println(id)
		}
	default:
		fmt.Fprintln(os.Stderr, "unknown subcommand")
		os.Exit(2)
	}
}

func setup() int {
	need := map[string]bool{}
	for _, m := range metas {
		for _, p := range m.Parts {
			need[p.Bin] = true
		}
	}
	var bins []string
	for b := range need {
		bins = append(bins, b)
	}
	sort.Strings(bins)
	for _, b := range bins {
		t := time.Now()
		if err := build(b); err != nil {
			fmt.Fprintf(os.Stderr, "setup: %v\n", err)
			return 1
		}
		fmt.Printf("setup: built checks-%s in %.1fs\n", b, time.Since(t).Seconds())
	}
	return 0
}
