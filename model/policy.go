package model

import "strings"

// Policy is the documented domain policy (doc/config.md), evaluated case-insensitively.
type Policy struct {
	DefaultAccept, DefaultStore                  bool
	Accept, Reject, Store, Discard, RejectOrigin []string
	MaxRecipients                                int
}

func containsFold(l []string, d string) bool {
	for _, x := range l {
		if strings.EqualFold(x, d) {
			return true
		}
	}
	return false
}

// AcceptRcpt: default-accept and not in the reject list, or default-reject and in the accept list.
func (p Policy) AcceptRcpt(domain string) bool {
	if p.DefaultAccept {
		return !containsFold(p.Reject, domain)
	}
	return containsFold(p.Accept, domain)
}

// StoreRcpt: default-store and not in the discard list, or default-discard and in the store list.
func (p Policy) StoreRcpt(domain string) bool {
	if p.DefaultStore {
		return !containsFold(p.Discard, domain)
	}
	return containsFold(p.Store, domain)
}

// AcceptOrigin: refused exactly when the domain matches a reject-origin pattern (* and ?).
func (p Policy) AcceptOrigin(domain string) bool {
	for _, pat := range p.RejectOrigin {
		if WildMatch(strings.ToLower(pat), strings.ToLower(domain)) {
			return false
		}
	}
	return true
}

// WildMatch is the reference wildcard matcher: '*' matches any run (incl. empty), '?' exactly
// one character, everything else itself.  Plain recursion on runes.
func WildMatch(p, s string) bool {
	return wild([]rune(p), []rune(s))
}

func wild(p, s []rune) bool {
	if len(p) == 0 {
		return len(s) == 0
	}
	switch p[0] {
	case '*':
		for i := 0; i <= len(s); i++ {
			if wild(p[1:], s[i:]) {
				return true
			}
		}
		return false
	case '?':
		return len(s) > 0 && wild(p[1:], s[1:])
	}
	return len(s) > 0 && s[0] == p[0] && wild(p[1:], s[1:])
}

// SimpleMailbox is the documented naming rule for *plain* addresses local@domain (no quoting,
// no routes): local → lower-cased local part up to the first '+'; full → that plus '@' plus the
// lower-cased domain; domain → the lower-cased domain.
func SimpleMailbox(naming, addr string) string {
	at := strings.LastIndex(addr, "@")
	local, domain := addr, ""
	if at >= 0 {
		local, domain = addr[:at], addr[at+1:]
	}
	local = strings.ToLower(local)
	if i := strings.Index(local, "+"); i >= 0 {
		local = local[:i]
	}
	switch naming {
	case "full":
		if domain == "" {
			return local
		}
		return local + "@" + strings.ToLower(domain)
	case "domain":
		return strings.ToLower(domain)
	}
	return local
}

// DomainOf returns the part after the last '@'.
func DomainOf(addr string) string {
	if at := strings.LastIndex(addr, "@"); at >= 0 {
		return addr[at+1:]
	}
	return ""
}
