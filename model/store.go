// Package model holds the reference models the implementation is compared with.  They are
// deliberately boring: a map of arrival-ordered lists for the stores, explicit state machines
// for the protocols.  Implementation-only failures (I/O errors) are outside them.
package model

import (
	"fmt"
	"sort"
	"strings"
)

// Msg is a message as the reference store model sees it.
type Msg struct {
	Ord     int    // arrival ordinal within its mailbox: 1, 2, … never reused
	Seq     int    // arrival sequence across the whole store (oldest-first eviction order)
	ID      string // concrete id the implementation returned for it
	Mailbox string
	From    string
	To      []string
	Subject string
	Body    string // full stored source as given to AddMessage
	Size    int64
	Seen    bool
	DateNS  int64
}

// Store is the reference model of storage.Store: mailbox name → arrival-ordered list.
type Store struct {
	Boxes    map[string][]*Msg
	Ever     map[string]int // number of messages ever added per mailbox
	Cap      int            // per-mailbox cap, 0 = none
	MaxBytes int64          // store-wide size limit, 0 = none
	seq      int
}

// NewStore returns an empty model.
func NewStore(cap int, maxBytes int64) *Store {
	return &Store{Boxes: map[string][]*Msg{}, Ever: map[string]int{}, Cap: cap, MaxBytes: maxBytes}
}

// Total is the sum of the sizes of all live messages.
func (s *Store) Total() int64 {
	var t int64
	for _, l := range s.Boxes {
		for _, m := range l {
			t += m.Size
		}
	}
	return t
}

// Add appends m to its mailbox and applies the cap and the size limit.  It returns the messages
// evicted as a consequence, in eviction order.
func (s *Store) Add(m *Msg) (evicted []*Msg) {
	s.seq++
	s.Ever[m.Mailbox]++
	m.Ord = s.Ever[m.Mailbox]
	m.Seq = s.seq
	s.Boxes[m.Mailbox] = append(s.Boxes[m.Mailbox], m)
	if s.Cap > 0 {
		for len(s.Boxes[m.Mailbox]) > s.Cap {
			l := s.Boxes[m.Mailbox]
			evicted = append(evicted, l[0])
			s.Boxes[m.Mailbox] = l[1:]
		}
	}
	if s.MaxBytes > 0 {
		for s.Total() > s.MaxBytes {
			o := s.oldest()
			if o == nil {
				break
			}
			s.drop(o)
			evicted = append(evicted, o)
		}
	}
	return evicted
}

func (s *Store) oldest() *Msg {
	var o *Msg
	for _, l := range s.Boxes {
		for _, m := range l {
			if o == nil || m.Seq < o.Seq {
				o = m
			}
		}
	}
	return o
}

func (s *Store) drop(x *Msg) {
	l := s.Boxes[x.Mailbox]
	for i, m := range l {
		if m == x {
			s.Boxes[x.Mailbox] = append(append([]*Msg{}, l[:i]...), l[i+1:]...)
			return
		}
	}
}

// ByOrd returns the live message with arrival ordinal ord, or nil.
func (s *Store) ByOrd(mb string, ord int) *Msg {
	for _, m := range s.Boxes[mb] {
		if m.Ord == ord {
			return m
		}
	}
	return nil
}

// ByID returns the live message with the given concrete id, or nil.
func (s *Store) ByID(mb, id string) *Msg {
	for _, m := range s.Boxes[mb] {
		if m.ID == id {
			return m
		}
	}
	return nil
}

// Latest returns the newest live message of mb, or nil.
func (s *Store) Latest(mb string) *Msg {
	l := s.Boxes[mb]
	if len(l) == 0 {
		return nil
	}
	return l[len(l)-1]
}

// Remove deletes one message; false if it does not exist.
func (s *Store) Remove(mb string, m *Msg) bool {
	if m == nil || s.ByOrd(mb, m.Ord) != m {
		return false
	}
	s.drop(m)
	return true
}

// Purge empties a mailbox and returns what was in it.
func (s *Store) Purge(mb string) []*Msg {
	l := s.Boxes[mb]
	s.Boxes[mb] = nil
	return l
}

// Names returns the names of the non-empty mailboxes, sorted.
func (s *Store) Names() []string {
	var n []string
	for k, l := range s.Boxes {
		if len(l) > 0 {
			n = append(n, k)
		}
	}
	sort.Strings(n)
	return n
}

// Key is a canonical rendering of the abstract state (id-abstract: ordinals, not ids).
func (s *Store) Key() string {
	var b strings.Builder
	var names []string
	for k := range s.Ever {
		names = append(names, k)
	}
	sort.Strings(names)
	for _, n := range names {
		fmt.Fprintf(&b, "%s#%d[", n, s.Ever[n])
		for _, m := range s.Boxes[n] {
			fmt.Fprintf(&b, "%d:%d:%x:%v:%d,", m.Ord, m.Seq, hashStr(m.Body), m.Seen, m.Size)
		}
		b.WriteString("]")
	}
	return b.String()
}

func hashStr(s string) uint32 {
	h := uint32(2166136261)
	for i := 0; i < len(s); i++ {
		h ^= uint32(s[i])
		h *= 16777619
	}
	return h
}
